"""C27 -- partition-value pruning of listing tables never drops matching files.  Tie: X."""
import vlib
from vlib import Check, zlit


def txt(s):
    return "[" + "; ".join(str(b) for b in s.encode("utf-8")) + "]"


def r_cols(cols):
    return "[" + "; ".join("(%s, %s)" % (txt(n), "TInt32" if t == "int" else "TUtf8") for n, t in cols) + "]"


def r_lit(l):
    return "VInt %s" % zlit(l["i"]) if "i" in l else "VStr %s" % txt(l["s"])


def r_atoms(atoms):
    return "[" + "; ".join("(%s, %s)" % (txt(n), r_lit(l)) for n, l in atoms) + "]"


def r_file(f):
    return "[" + "; ".join(txt(s) for s in f) + "]"


def r_files(fs):
    return "[" + "; ".join(r_file(f) for f in fs) + "]"


def render(c):
    if c["k"] == "prefix":
        return "CPrefix %s %s %s" % (r_cols(c["cols"]), r_atoms(c["atoms"]), r_file(c["parts"]))
    if c["k"] == "pruned":
        return "CPruned %s %s %s %s" % (r_cols(c["cols"]), r_atoms(c["atoms"]), r_files(c["files"]), r_files(c["kept"]))
    return "CParse %s %s %s" % (r_cols(c["cols"]), r_file(c["file"]), "None" if c["got"] is None else "(Some %s)" % r_file(c["got"]))


def run(pid, tier, seed, replay):
    ck = Check(pid, tier, seed, level="proof")
    n = 400 if tier == "quick" else 6000
    ck.proof_step(extra_targets=["Model/ListingPrune.vo"])
    ok, out, dt = vlib.cargo_build("h_core", bin="c27")
    ck.log("cargo build: ok=%s (%.0fs)" % (ok, dt))
    if not ok:
        ck.problem("tie", "harness build failed:\n" + out[-3000:])
        return ck.finish()
    rc, so, se, dt = vlib.run_bin("c27", ["--seed", seed, "--n", n])
    cases = vlib.jsonl(so)
    if rc != 0:
        ck.problem("tie", "harness ended abnormally rc=%d: %s" % (rc, se[-1500:]))
    if not cases:
        return ck.finish()
    kinds = {}
    for c in cases:
        kinds[c["k"]] = kinds.get(c["k"], 0) + 1
        if not c["ok"]:
            if c["k"] == "pruned":
                key = "overencoded-directory-name" if c.get("overencoded_only") else None
                ck.fail_input("pruned_partition_list dropped/added files: " + c["why"],
                              {"cols": c["cols"], "filter_atoms": c["atoms"], "files": c["files"], "kept": c.get("kept"), "error": c.get("error")}, key=key)
            elif c["k"] == "sql":
                ck.fail_input("ListingTable SQL result differs from scan-all-then-filter: " + c["why"][:600], {"desc": c["desc"]})
            else:
                ck.fail_input("parse_partitions_for_path returned %s" % c["got"], {"cols": c["cols"], "file": c["file"]})
    ck.log("harness: %s (%.1fs)" % (kinds, dt))
    # correspondence: the model covers canonical layouts (its theorems' hypothesis) exactly; on the
    # over-encoded stream it must still predict what the implementation lists
    corr = [c for c in cases if c["k"] in ("prefix", "parse") or (c["k"] == "pruned" and "kept" in c)]
    pre = "From DF Require Import Base.Prelude Model.ListingPrune.\nOpen Scope Z_scope."
    bad, log, dt = vlib.coq_eval_cases(pre, "c27_case", "c27_check", [render(c) for c in corr], shard=200, tag="c27")
    ck.log("correspondence: %d cases, %d disagreements (%.1fs)" % (len(corr), len(bad), dt))
    if bad:
        first = bad[0]
        ck.problem("tie", "model and implementation disagree on %d cases; first: %s"
                   % (len(bad), str(corr[first] if isinstance(first, int) else log)[:1500]))
    nt = {vlib.case_hash([c["cols"], c["atoms"], c["files"]]) for c in cases
          if c["k"] == "pruned" and c["atoms"] and c.get("kept") and len(c["kept"]) < len(c["files"])}
    nt |= {vlib.case_hash(c["desc"]) for c in cases if c["k"] == "sql" and c.get("rows_pruned", 0) > 0}
    ck.coverage.update({
        "evaluations": len(cases),
        "distinct_nontrivial": len(nt),
        "rule": "layouts of 1..3 partition columns (Int32/Utf8) x 1..7 files; directory spellings include 01, +1, 007, %20, %2F, %3F, %25 and (every 10th layout) "
                "over-encoded names such as %66oo; filters: conjunctions of column = literal (2/3 of the literals denote an existing directory's value) spread over "
                "several filter expressions / nested ANDs / flipped operands; SQL stream: =, AND, OR, IN, >=, <>, data-column conjuncts through ListingTable; "
                "non-trivial = a filter that keeps a non-empty strict subset of the files (pruned) / returns rows (sql)",
        "case_kinds": kinds,
        "traces_validated_against_impl": len(corr),
        "samples": [next(c for c in cases if c["k"] == "pruned" and c["atoms"]), next(c for c in cases if c["k"] == "sql")["desc"]],
        "trusted_base": vlib.TRUSTED_COMMON + [
            "object_store::memory::InMemory listing semantics (segment-wise prefix); object_store Path encoding of the characters used",
            "filters other than conjunctions of column = literal are decided by the oracle only (listing-table result == scan-all-then-filter)"],
    })
    ck.assumptions = ["theorems assume canonically percent-encoded directory names (the over-encoded case is the listed known finding) and distinct partition column names",
                      "partition types modelled: Int32, Utf8"]
    return ck.finish()
