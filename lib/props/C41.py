"""C41 -- Bound query parameters behave like the equivalent literals.  Tie: X (differential) on top of engine E1 (RefSQL).

Proof part (coq/Model/Params.v, coq/Proofs/ParamsProofs.v, coq/Props/C41.v): RefSQL extended with placeholders
(`PParam n`, LIMIT / OFFSET arguments `LParam n`), the implementation's meaning of binding = REWRITING the query
(`subst_q`, eager, like LogicalPlan::replace_params_with_values) and the specification = environment-passing evaluation
(`peval_query`).  `C41_subst_lemma`: whenever the rewrite succeeds, evaluating the rewritten query equals evaluating
the parameterized query under the environment -- for every query of the fragment (placeholders anywhere, including
subqueries at any depth and LIMIT/OFFSET), fuel, data base, scope stack.

Tie: harness/h_core/src/bin/c41.rs runs C01's query stream (same generator, same seeds) with a random subset of the
literals replaced by placeholders, in seven execution variants (literal text / with_param_values List / List with
coercible value types / Map / PREPARE typed + EXECUTE / PREPARE untyped + EXECUTE / List with a missing value).
 * direct oracle: every variant returns the same bag of rows as the literal text (an error iff the literal text
   errors, with the same error class); the missing-value variant is rejected;
 * correspondence: `c41_check` (Coq): the rows are an acceptable answer of the RefSQL reference for the SUBSTITUTED
   query (C01's verdict incl. valid top-k), and run_query(subst) = prun_query on this input.  A disagreement of the
   LITERAL text with the reference is C01's business: it is attributed with C01's `known_variants` and counted, it is
   not a C41 failure (literal and parameter forms agree with each other).
"""
import json
import re

import vlib
from vlib import Check, zlit
from props.C01 import (r_db, r_rel, r_value, r_list, cb, ARITH, CMP, JOIN, SETOP, AGG, known_variants, has_node,
                       unsupported, constructs)
from props.C01 import r_case as r01_case
from props.C01 import PRE as PRE01

PRE = "From DF Require Import Base.Prelude Model.RefSQL Model.Params.\nOpen Scope Z_scope."
LIM_BASE = 9000000000
SENT = re.compile(r"^@@P(\d+)@@$")

KF1 = "C41-KF1-prepare-optimizes-unbound-plan-column-free-having-pushed-below-aggregate"
KF1_WHAT = ("C41-KF1 PREPARE optimizes the statement BEFORE its parameters are bound (SessionContext::execute_logical_plan, "
            "Statement::Prepare): a HAVING predicate made only of placeholders over an aggregate without GROUP BY cannot be folded, "
            "push_down_filter moves it below the Aggregate (C03-KF5) and EXECUTE returns one row (count 0, sum NULL) where the literal "
            "text and with_param_values return no row: PREPARE p(BIGINT,BIGINT,BIGINT,BOOLEAN) AS SELECT count(*), sum(c1) FROM t1 "
            "HAVING (($1 NOT BETWEEN $2 AND $3) AND $4); EXECUTE p(2,2,2,NULL)")
KF2 = "C41-KF2-prepare-runs-optimizer-without-analyzer-on-typed-placeholders"
KF2_WHAT = ("C41-KF2 PREPARE p(<types>) AS .. runs the optimizer on the unbound plan without the analyzer's type coercion: a "
            "statement that mixes VARCHAR-typed placeholders (Utf8View) with string literals (Utf8), e.g. COALESCE($1,$2,$3) EXCEPT "
            "COALESCE('a', NULL), is rejected with \"Optimizer rule 'simplify_expressions' failed .. CASE expression 'then' values had "
            "multiple data types\" although the literal text and with_param_values execute")
KF3 = "C41-KF3-prepare-without-declared-types-fails"
KF3_WHAT = ("C41-KF3 PREPARE p AS .. (no declared parameter types) is rejected or fails at EXECUTE whenever a placeholder has no "
            "inferable type, although PREPARE with declared types, with_param_values and the literal text work: \"Prepare specifies k "
            "data types but query has n parameters\" (un-inferable placeholders are dropped from the inferred list), EXECUTE \"Casting "
            "from Int64 to Null not supported\" (type Null inferred for $1 in SELECT $1 / $1 <= $2), \"Can not find type of <column> "
            "needed to infer type of $1\" (inference against the optimized plan's schema), \"Optimizer rule 'optimize_unions' failed\"")
# the parameterized text cannot be planned at all (no prepared statement / parameterized query exists): not compared
UNSUPPORTED_PLACEMENT = ("Cannot coerce arithmetic expression", "Cannot infer common argument type", "could not be resolved",
                         "Placeholder type", "Cannot infer", "Unsupported argument types", "Unsupported data type",
                         "There isn't a common type to coerce")


def r_larg(n):
    return "(LParam %d)" % (n - LIM_BASE) if n >= LIM_BASE else "(LConst %d)" % n


def r_pexpr(e):
    k = e[0]
    if k == "col":
        return "(PCol %d %d)" % (e[1], e[2])
    if k == "lit":
        m = SENT.match(e[1]) if isinstance(e[1], str) else None
        return "(PParam %s)" % m.group(1) if m else "(PLit %s)" % r_value(e[1])
    if k == "arith":
        return "(PArith %s %s %s)" % (ARITH[e[1]], r_pexpr(e[2]), r_pexpr(e[3]))
    if k == "cmp":
        return "(PCmp %s %s %s)" % (CMP[e[1]], r_pexpr(e[2]), r_pexpr(e[3]))
    if k == "and":
        return "(PAnd %s %s)" % (r_pexpr(e[1]), r_pexpr(e[2]))
    if k == "or":
        return "(POr %s %s)" % (r_pexpr(e[1]), r_pexpr(e[2]))
    if k == "not":
        return "(PNot %s)" % r_pexpr(e[1])
    if k == "isnull":
        return "(PIsNull %s %s)" % (cb(e[1]), r_pexpr(e[2]))
    if k == "distinct":
        return "(PDistinct %s %s %s)" % (cb(e[1]), r_pexpr(e[2]), r_pexpr(e[3]))
    if k == "between":
        return "(PBetween %s %s %s %s)" % (cb(e[1]), r_pexpr(e[2]), r_pexpr(e[3]), r_pexpr(e[4]))
    if k == "inlist":
        return "(PInList %s %s %s)" % (cb(e[1]), r_pexpr(e[2]), r_list([r_pexpr(x) for x in e[3]]))
    if k == "case":
        ws = r_list(["(%s, %s)" % (r_pexpr(w), r_pexpr(t)) for w, t in e[1]])
        return "(PCase %s %s)" % (ws, "None" if e[2] is None else "(Some %s)" % r_pexpr(e[2]))
    if k == "coalesce":
        return "(PCoalesce %s)" % r_list([r_pexpr(x) for x in e[1]])
    if k == "nullif":
        return "(PNullif %s %s)" % (r_pexpr(e[1]), r_pexpr(e[2]))
    if k == "scalar":
        return "(PScalar %s)" % r_pquery(e[1])
    if k == "exists":
        return "(PExists %s %s)" % (cb(e[1]), r_pquery(e[2]))
    if k == "insub":
        return "(PInSub %s %s %s)" % (cb(e[1]), r_pexpr(e[2]), r_pquery(e[3]))
    raise ValueError("unknown expression " + str(k))


def r_pquery(q):
    k = q[0]
    if k == "table":
        return "(PQTable %d)" % q[1]
    if k == "values":
        return "(PQValues %s)" % r_rel(q[1])
    if k == "filter":
        return "(PQFilter %s %s)" % (r_pexpr(q[1]), r_pquery(q[2]))
    if k == "project":
        return "(PQProject %s %s)" % (r_list([r_pexpr(x) for x in q[1]]), r_pquery(q[2]))
    if k == "join":
        kind, wl, wr, on, l, r = q[1:]
        if kind == "cross":
            return "(PQJoin JInner %d %d (PLit (VBool true)) %s %s)" % (wl, wr, r_pquery(l), r_pquery(r))
        return "(PQJoin %s %d %d %s %s %s)" % (JOIN[kind], wl, wr, r_pexpr(on), r_pquery(l), r_pquery(r))
    if k == "semi":
        return "(PQSemi %s %s %s %s)" % (cb(q[1]), r_pexpr(q[2]), r_pquery(q[3]), r_pquery(q[4]))
    if k == "group":
        aggs = r_list(["(%s, %s)" % (AGG[a], r_pexpr(x)) for a, x in q[2]])
        return "(PQGroup %s %s %s %s)" % (r_list([r_pexpr(x) for x in q[1]]), aggs,
                                          "None" if q[3] is None else "(Some %s)" % r_pexpr(q[3]), r_pquery(q[4]))
    if k == "distinctq":
        return "(PQDistinct %s)" % r_pquery(q[1])
    if k == "setop":
        return "(PQSetOp %s %s %s %s)" % (SETOP[q[1]], cb(q[2]), r_pquery(q[3]), r_pquery(q[4]))
    if k == "sort":
        ks = r_list(["(%s, (%s, %s))" % (r_pexpr(x), cb(d), cb(nf)) for x, d, nf in q[1]])
        return "(PQSort %s %s)" % (ks, r_pquery(q[2]))
    if k == "limit":
        return "(PQLimit %s %s %s)" % (r_larg(q[1]), "None" if q[2] is None else "(Some %s)" % r_larg(q[2]), r_pquery(q[3]))
    raise ValueError("unknown query node " + str(k))


def r_params(ps, n=None):
    ps = sorted(ps, key=lambda p: p["k"])
    assert [p["k"] for p in ps] == list(range(1, len(ps) + 1))
    vs = [r_value(p["v"]) for p in ps]
    return r_list(vs if n is None else vs[:n])


def r_case(c, pq, out, nparams=None):
    obs = "(Some %s)" % r_rel(out["rows"]) if out is not None and "rows" in out else "None"
    return "C41Case %s %s %s %s" % (r_db(c["tables"]), r_pquery(pq), r_params(c["params"], nparams), obs)


def having_const_below(x):
    """KF1 rewrite: Group([], aggs, HAVING h, q) with column-free h  ->  Group([], aggs, None, Filter(h, q))"""
    if not isinstance(x, list) or not x:
        return x
    if x[0] == "group" and x[1] == [] and x[3] is not None and not has_node(x[3], lambda n: n and n[0] == "col"):
        return ["group", [], x[2], None, ["filter", x[3], having_const_below(x[4])]]
    return [having_const_below(y) if isinstance(y, list) else y for y in x]


def err_class(msg):
    m = msg.split("\ncaused by\n")[-1]
    for pat, cl in (("This feature is not implemented", "not_implemented"), ("Arrow error", "arrow"), ("Execution error", "execution"),
                    ("Schema error", "schema"), ("Error during planning", "plan"), ("Internal error", "internal"),
                    ("Resources exhausted", "resources"), ("External error", "external"), ("Optimizer rule", "optimizer")):
        if m.startswith(pat):
            return cl
    return m.split(":")[0][:40]


def bag(rows):
    return sorted(json.dumps(r, sort_keys=True) for r in rows)


VARIANTS = ("list", "coerce", "map", "prepare", "infer")


def run(pid, tier, seed, replay):
    ck = Check(pid, tier, seed, level="proof")
    n = 152 if tier == "quick" else 2850
    ck.proof_step(extra_targets=["Model/Params.vo", "Proofs/ParamsProofs.vo"])
    ok, out, dt = vlib.cargo_build("h_core", bin="c41")
    ck.log("cargo build: ok=%s (%.0fs)" % (ok, dt))
    if not ok:
        ck.problem("tie", "harness build failed:\n" + out[-3000:])
        return ck.finish()
    rc, so, se, dt = vlib.run_bin("c41", ["--seed", seed, "--n", n], timeout=3000)
    cases = vlib.jsonl(so)
    if rc != 0:
        ck.problem("tie", "harness ended abnormally rc=%d: %s" % (rc, se[-1500:]))
    if not cases:
        ck.problem("tie", "harness produced no cases")
        return ck.finish()
    ck.log("harness: %d queries x up to 7 execution variants (%.1fs)" % (len(cases), dt))

    def brief(c, variant=None):
        b = {"id": c["id"], "stream": c["stream"], "target_partitions": c["tp"], "batch_size": c["bs"],
             "tables": [{"types": t["types"], "partitions": t["parts"], "rows": t["rows"]} for t in c["tables"]],
             "sql_literal": c["sql"]["lit"], "sql_positional": c["sql"]["list"], "sql_named": c["sql"]["map"],
             "sql_prepare": c["sql"]["prepare"], "sql_execute": c["sql"]["execute"],
             "parameters": [{"k": p["k"], "value": p["v"], "type": p["ty"]} for p in c["params"]],
             "literal_result": c["outs"]["lit"]}
        if variant:
            b["variant"] = variant
            b["variant_result"] = c["outs"].get(variant)
        return b

    stats = {"variant_executions": 0, "variant_equal_rows": 0, "variant_same_error": 0, "unsupported_placeholder_placement": 0,
             "hung": 0, "literal_error_cases": 0, "short_rejected": 0, "topk_adjudicated": 0}
    unsupported_msgs = {}
    known_counts = {}
    coq_lit = []       # (case index, term)        literal output against the reference
    coq_var = []       # (case index, variant, term)   variant outputs that need the reference (top-k under ORDER BY .. LIMIT)
    coq_kf1 = []       # (case index, variant, term)   wrong rows of a PREPARE variant: does the KF1 rewrite reproduce them?
    coq_short = []     # (case index, term)
    pending_rows = {}  # (case index, variant) -> what, for wrong rows awaiting the KF1 explanation
    site_counts = {}
    param_values = {"null": 0, "int": 0, "str": 0, "bool": 0}
    reused = 0
    for ci, c in enumerate(cases):
        outs = c["outs"]
        lit = outs["lit"]
        for p in c["params"]:
            param_values["null" if p["v"] is None else p["ty"]] += 1
            if len(p["sites"]) > 1:
                reused += 1
            for s in p["sites"]:
                site_counts[s] = site_counts.get(s, 0) + 1
        if lit.get("stage") == "panic":
            ck.fail_input("engine panicked on the literal text: " + lit["err"][:300], brief(c))
            continue
        if lit.get("stage") == "hang":
            stats["hung"] += 1
            continue
        lit_ok = "rows" in lit
        if not lit_ok:
            stats["literal_error_cases"] += 1
        for v in VARIANTS:
            o = outs.get(v)
            if o is None:
                continue
            stats["variant_executions"] += 1
            if o.get("stage") == "hang":
                stats["hung"] += 1
                continue
            if o.get("stage") == "panic":
                ck.fail_input("engine panicked in variant %s: %s" % (v, o["err"][:300]), brief(c, v))
                continue
            if lit_ok and "rows" in o:
                if bag(lit["rows"]) == bag(o["rows"]):
                    stats["variant_equal_rows"] += 1
                elif c["q"][0] == "limit" and c["q"][3][0] == "sort" and len(lit["rows"]) == len(o["rows"]):
                    coq_var.append((ci, v, r_case(c, c["pq"], o)))     # both must be valid top-k answers
                elif v in ("prepare", "infer") and having_const_below(c["pq"]) != c["pq"]:
                    coq_kf1.append((ci, v, r_case(c, having_const_below(c["pq"]), o)))
                else:
                    ck.fail_input("variant %s returns rows different from the literal text" % v, brief(c, v))
                continue
            if lit_ok and "err" in o:
                msg, stage = o["err"], o.get("stage")
                if stage in ("plan", "prepare") and any(m in msg for m in UNSUPPORTED_PLACEMENT) and \
                        (v != "prepare" or "rows" not in outs.get("list", {})):
                    stats["unsupported_placeholder_placement"] += 1
                    unsupported_msgs[msg[:100]] = unsupported_msgs.get(msg[:100], 0) + 1
                    continue
                key = None
                if v == "infer" and ("rows" in outs.get("prepare", {}) or "rows" in outs.get("list", {})):
                    key = KF3
                if v in ("prepare", "infer") and stage == "prepare" and "Optimizer rule" in msg and "err" in outs.get("prepare", {}) \
                        and outs["prepare"].get("stage") == "prepare" and "rows" in outs.get("list", {}):
                    key = KF2
                if key:
                    known_counts[key[:7]] = known_counts.get(key[:7], 0) + 1
                ck.fail_input("variant %s fails (%s) where the literal text succeeds: %s" % (v, stage, msg[:300]), brief(c, v), key=key)
                continue
            if not lit_ok and "rows" in o:
                if unsupported(lit["err"]) or stats is None:
                    pass
                ck.fail_input("variant %s succeeds where the literal text fails: %s" % (v, lit["err"][:300]), brief(c, v))
                continue
            # both fail: same error class?
            if err_class(lit["err"]) == err_class(o["err"]) or (o.get("stage") in ("plan", "prepare") and any(m in o["err"] for m in UNSUPPORTED_PLACEMENT)):
                stats["variant_same_error"] += 1
            elif v in ("prepare", "infer") and o.get("stage") in ("prepare", "bind"):
                # the statement fails either way; PREPARE / EXECUTE reject it earlier than the literal text fails (see C41-KF2 / KF3)
                stats["variant_fails_earlier"] = stats.get("variant_fails_earlier", 0) + 1
            else:
                ck.fail_input("variant %s fails with error class %s, the literal text with %s" % (v, err_class(o["err"]), err_class(lit["err"])),
                              brief(c, v))
        sh = outs.get("short")
        if sh is not None:
            if "err" in sh and (sh.get("stage") == "bind" and "No value found for placeholder" in sh["err"]
                                or sh.get("stage") == "plan" or sh.get("stage") == "hang"):
                stats["short_rejected"] += 1
                if sh.get("stage") == "bind":
                    coq_short.append((ci, r_case(c, c["pq"], None, len(c["params"]) - 1)))
            else:
                ck.fail_input("a parameter list with a missing value was not rejected by with_param_values", brief(c, "short"))
        if lit_ok:
            coq_lit.append((ci, r_case(c, c["pq"], lit)))

    shard = 40
    lit_terms = [t for _, t in coq_lit]
    # one pass with the strict test (verdict 0); the few cases that fail it are re-examined (verdict 2 = reference run-time error)
    agree_l, log2, dt2 = vlib.coq_eval_cases(PRE, "c41_case", "c41_agree", lit_terms, shard=shard, tag="c41a")
    if any(not isinstance(b, int) for b in agree_l):
        ck.problem("tie", "evaluation of the reference in coqc failed:\n" + log2[-3000:])
    agree_order = sorted(b for b in agree_l if isinstance(b, int))
    agree_bad = set(agree_order)
    bad, dt1 = [], 0.0
    if agree_order:
        sub0, log, dt1 = vlib.coq_eval_cases(PRE, "c41_case", "c41_check", [lit_terms[i] for i in agree_order], shard=shard, tag="c41")
        if any(not isinstance(b, int) for b in sub0):
            ck.problem("tie", "evaluation of the reference in coqc failed:\n" + log[-3000:])
        bad = [agree_order[b] for b in sub0 if isinstance(b, int)]
    wf_bad = set()
    if bad:
        sub, log3, _ = vlib.coq_eval_cases(PRE, "c41_case", "c41_wellformed", [lit_terms[i] for i in bad], shard=shard, tag="c41w")
        if any(not isinstance(b, int) for b in sub):
            ck.problem("tie", "evaluation of the reference in coqc failed:\n" + log3[-3000:])
        wf_bad = {bad[b] for b in sub if isinstance(b, int)}
    for i in sorted(wf_bad):
        ck.problem("tie", "parameterized term ill-formed, substitution failed, or the two meanings differ (verdict 3/4/5): %s"
                   % json.dumps(brief(cases[coq_lit[i][0]]))[:1500])
    # disagreements of the LITERAL text with the reference: C01's findings (same classification as C01)
    dis = [i for i in bad if i not in wf_bad]
    cand = []
    for j, i in enumerate(dis):
        c = cases[coq_lit[i][0]]
        c1 = {"tables": c["tables"], "q": c["q"], "out": c["outs"]["lit"]}
        for key, c2 in known_variants(c1):
            cand.append((j, key, r01_case(c2)))
    explained = {}
    if cand:
        cbad, log4, _ = vlib.coq_eval_cases(PRE01, "c01_case", "c01_agree", [t for _, _, t in cand], shard=shard, tag="c41k")
        if any(not isinstance(b, int) for b in cbad):
            ck.problem("tie", "evaluation of the C01 known-deviation variants in coqc failed:\n" + log4[-3000:])
        cbad = set(cbad)
        for n_, (j, key, _) in enumerate(cand):
            if n_ not in cbad and j not in explained:
                explained[j] = key
    c01_known, c01_unexplained = {}, []
    for j, i in enumerate(dis):
        c = cases[coq_lit[i][0]]
        if j in explained:
            k7 = " + ".join(p.strip()[:7] for p in explained[j].split(" + "))
            c01_known[k7] = c01_known.get(k7, 0) + 1
        else:
            c01_unexplained.append({"id": c["id"], "sql": c["sql"]["lit"]})
    if c01_unexplained:
        ck.notes.append("%d literal texts disagree with the reference without a listed C01 explanation (not a C41 failure: every "
                        "parameter form agrees with the literal form): %s" % (len(c01_unexplained), json.dumps(c01_unexplained[:3])[:900]))
    # top-k adjudication and KF1 explanation
    if coq_var:
        vbad, logv, _ = vlib.coq_eval_cases(PRE, "c41_case", "c41_check", [t for _, _, t in coq_var], shard=shard, tag="c41v")
        if any(not isinstance(b, int) for b in vbad):
            ck.problem("tie", "evaluation of the reference in coqc failed:\n" + logv[-3000:])
        vbad = {b for b in vbad if isinstance(b, int)}
        for n_, (ci, v, _) in enumerate(coq_var):
            lit_idx = [i for i, (cj, _) in enumerate(coq_lit) if cj == ci]
            lit_wrong = bool(lit_idx) and lit_idx[0] in set(bad)
            if n_ in vbad and not lit_wrong:
                ck.fail_input("variant %s returns a top-k that is not a valid answer of ORDER BY .. LIMIT (the literal text's is)" % v,
                              brief(cases[ci], v))
            else:
                stats["topk_adjudicated"] += 1
    if coq_kf1:
        kbad, logk, _ = vlib.coq_eval_cases(PRE, "c41_case", "c41_agree", [t for _, _, t in coq_kf1], shard=shard, tag="c41h")
        if any(not isinstance(b, int) for b in kbad):
            ck.problem("tie", "evaluation of the reference in coqc failed:\n" + logk[-3000:])
        kbad = {b for b in kbad if isinstance(b, int)}
        for n_, (ci, v, _) in enumerate(coq_kf1):
            if n_ in kbad:
                ck.fail_input("variant %s returns rows different from the literal text" % v, brief(cases[ci], v))
            else:
                known_counts[KF1[:7]] = known_counts.get(KF1[:7], 0) + 1
                ck.fail_input("variant %s returns rows different from the literal text (HAVING evaluated below the aggregate)" % v,
                              brief(cases[ci], v), key=KF1)
    if coq_short:
        sbad, logs, _ = vlib.coq_eval_cases(PRE, "c41_case", "c41_unbound", [t for _, t in coq_short], shard=shard, tag="c41s")
        if sbad:
            ck.problem("tie", "model: substitution with a missing value did not fail for cases %s\n%s" % (sbad[:5], logs[-1500:]))

    # witnesses: which listed finding did each fixed witness hit
    witness = {}
    for f in ck.failing:
        cs = f["case"]
        if str(cs.get("stream", "")).startswith("witness:") and f.get("key"):
            witness.setdefault(cs["stream"][8:], set()).add(f["key"][:7])
    witness = {k: sorted(v) for k, v in witness.items()}
    for name, key in (("KF1", "C41-KF1"), ("KF2", "C41-KF2"), ("KF3", "C41-KF3")):
        if key not in witness.get(name, []):
            ck.notes.append("witness query for %s did not reproduce the finding (fixed upstream?)" % key)

    compared = [cases[ci] for i, (ci, _) in enumerate(coq_lit) if i not in agree_bad]
    nt = set()
    cons = {}
    for c in compared:
        if c["params"] and c["outs"]["lit"].get("rows"):
            nt.add(vlib.case_hash([c["pq"], [p["v"] for p in c["params"]], [t["rows"] for t in c["tables"]]]))
        constructs(c["q"], cons)
    ck.log("reference (Coq): %d literal outputs, %d agree, %d disagree (C01 findings %s, unexplained %d), %d not compared (reference run-time "
           "error) (%.1fs); variants: %s" % (len(coq_lit), len(compared), len(dis), c01_known, len(c01_unexplained),
                                           len([i for i in agree_bad if i not in set(bad)]), dt1 + dt2, stats))
    ck.coverage.update({
        "evaluations": len(cases),
        "distinct_nontrivial": len(nt),
        "rule": "C01's query stream (19 construct families over 1..3 nullable tables, see C01) with each literal occurrence / LIMIT / OFFSET count "
                "replaced by a placeholder with probability 1/2 (a placeholder is reused for an equal value with probability 1/3), executed in 7 "
                "variants; non-trivial = at least one placeholder, literal text returned at least one row and agrees with the reference, distinct "
                "(parameterized query, values, tables)",
        "placeholders": sum(len(c["params"]) for c in cases),
        "literal_sites": sum(c["nsites"] for c in cases),
        "placeholders_reused": reused,
        "placeholder_values": param_values,
        "placeholder_sites": dict(sorted(site_counts.items(), key=lambda kv: -kv[1])[:40]),
        "variants": stats,
        "unsupported_placement_messages": unsupported_msgs,
        "compared_with_reference": len(compared),
        "literal_disagreements_attributed_to_C01_findings": c01_known,
        "literal_disagreements_unexplained": len(c01_unexplained),
        "known_findings_hit_counts": known_counts,
        "witness_corpus": witness,
        "construct_occurrences_in_compared_queries": cons,
        "traces_validated_against_impl": len(compared),
        "samples": [{"sql": c["sql"]["list"], "execute": c["sql"]["execute"], "result": c["outs"]["list"]} for c in compared if c["params"]][:2],
        "trusted_base": vlib.TRUSTED_COMMON + [
            "C01's renderers (refsql_gen.rs to SQL / JSON, C01.py JSON to Coq) and the textual placeholder substitution of c41.rs "
            "('@@Pk@@' string literal / count 9000000000+k -> $k) are trusted to denote the same parameterized query",
            "the engine is tied to the model by differential execution only; the planner's placeholder type inference is not modelled",
        ],
    })
    ck.assumptions = [
        "the theorems are about the model (Model/Params.v): substitution into RefSQL queries vs environment-passing evaluation",
        "parameter values have the type of the literal they replace (BIGINT / VARCHAR / BOOLEAN, NULL typed); the `coerce` variant passes "
        "Int32 / Utf8View / untyped NULL instead",
        "a parameterized text that the engine cannot plan because a placeholder has no inferable type is not compared (counted in "
        "variants.unsupported_placeholder_placement)",
    ]
    return ck.finish()
