"""C51 -- the CLI splits scripts at semicolons outside quotes and formats results faithfully.  Tie: X."""
import vlib
from vlib import Check

KEY_BACKTICK = "C51-backtick-identifier-split"
KEY_ESTRING = "C51-backslash-escaped-quote-split"
KEY_DOLLAR = "C51-dollar-quoted-string-split"


def cps(s):
    return "[" + "; ".join(str(ord(ch)) for ch in s) + "]"


def byt(s):
    return "[" + "; ".join(str(b) for b in s.encode("utf-8")) + "]"


def r_cell(c):
    return "None" if c is None else "Some %s" % byt(c)


def r_rows(rows):
    return "[" + "; ".join("[" + "; ".join(r_cell(c) for c in r) + "]" for r in rows) + "]"


def r_names(ns):
    return "[" + "; ".join(byt(n) for n in ns) + "]"


def render(c):
    if c["k"] in ("split", "script"):
        return "CSplit %s [%s]" % (cps(c["s"]), "; ".join(cps(p) for p in c["got"]))
    f = c["fmt"]
    if f in ("csv", "tsv", "auto"):
        hdr = "(Some %s)" % r_names(c["names"]) if c["header"] else "None"
        return "CCsv %d %s %s %s" % (9 if f == "tsv" else 44, hdr, r_rows(c["rows"]), byt(c["out"]))
    return "%s %s %s %s" % ("CJson" if f == "json" else "CNdJson", r_names(c["names"]), r_rows(c["rows"]), byt(c["out"]))


def run(pid, tier, seed, replay):
    ck = Check(pid, tier, seed, level="proof")
    n = 400 if tier == "quick" else 8000
    exh = 5                                # Rust oracle: every string of length <= 5 over the 9 letter alphabet
    exh_coq = 3 if tier == "quick" else 5  # of these, the ones replayed on the Coq model
    ck.proof_step(extra_targets=["Model/CliSplit.vo"])
    ok, out, dt = vlib.cargo_build("h_cli", bin="c51")
    ck.log("cargo build: ok=%s (%.0fs)" % (ok, dt))
    if not ok:
        ck.problem("tie", "harness build failed:\n" + out[-3000:])
        return ck.finish()
    rc, so, se, dt = vlib.run_bin("c51", ["--seed", seed, "--n", n, "--exh", exh])
    cases = vlib.jsonl(so)
    if rc != 0:
        ck.problem("tie", "harness ended abnormally rc=%d: %s" % (rc, se[-1500:]))
    if not cases:
        return ck.finish()
    kinds, classes, fmts = {}, {}, {}
    limitation_comment = 0
    for c in cases:
        kinds[c["k"]] = kinds.get(c["k"], 0) + 1
        if c["k"] == "split":
            if not c["ok"]:
                if "panic" in c:
                    ck.fail_input("split_from_semicolon panicked: " + c["panic"], {"input": c["s"]})
                else:
                    ck.fail_input("split_from_semicolon does not cut exactly at the semicolons outside '...' and \"...\"",
                                  {"input": c["s"], "got": c["got"], "expected": c["want"]})
        elif c["k"] == "script":
            cls = c["cls"]
            classes[cls] = classes.get(cls, 0) + 1
            if "panic" in c:
                ck.fail_input("split_from_semicolon panicked: " + c["panic"], {"input": c["s"]})
            elif cls == "comment":
                # SQL comments are outside the property's statement: counted, never reported
                if c["valid"] and c["got"] != [s.strip() + ";" for s in c["stmts"]]:
                    limitation_comment += 1
            elif not c["ok"]:
                key = {"backtick": KEY_BACKTICK, "estring": KEY_ESTRING, "dollar": KEY_DOLLAR}.get(cls)
                ck.fail_input("a script of statements that DFParser (generic dialect) accepts one by one is not split back into these statements (%s)" % cls,
                              {"statements": c["stmts"], "script": c["s"], "got": c["got"]}, key=key)
        else:
            fmts[c["fmt"]] = fmts.get(c["fmt"], 0) + 1
            if not c["ok"]:
                ck.fail_input("PrintFormat %s output does not read back to the values: %s" % (c["fmt"], c.get("why", "output is not UTF-8")),
                              {"format": c["fmt"], "header": c["header"], "names": c["names"], "types": c["types"], "rows": c["rows"],
                               "output": c.get("out"), "error": c.get("error")})
    ck.log("harness: %s scripts=%s formats=%s (%.1fs)" % (kinds, classes, fmts, dt))
    # correspondence: the Coq model predicts the implementation's pieces / bytes exactly
    corr = [c for c in cases if (c["k"] in ("split", "script") and "got" in c)
            or (c["k"] == "fmt" and c["strings_only"] and "out" in c and c.get("utf8"))]
    small = [c for c in corr if c["k"] == "split" and c.get("src") == "exh" and len(c["s"]) <= exh_coq]
    rest = [c for c in corr if not (c["k"] == "split" and c.get("src") == "exh")]
    corr = small + rest
    pre = "From DF Require Import Base.Prelude Model.CliSplit.\nOpen Scope Z_scope."
    nbad = 0
    for tag, group, shard in (("c51s", small, 1000), ("c51", rest, 150)):
        if not group:
            continue
        bad, log, dt = vlib.coq_eval_cases(pre, "c51_case", "c51_check", [render(c) for c in group], shard=shard, tag=tag)
        ck.log("correspondence %s: %d cases, %d disagreements (%.1fs)" % (tag, len(group), len(bad), dt))
        if bad:
            nbad += len(bad)
            first = bad[0]
            ck.problem("tie", "model and implementation disagree on %d cases; first: %s"
                       % (len(bad), str({k: v for k, v in group[first].items() if k != "want"} if isinstance(first, int) else log)[:1500]))
    nt = {vlib.case_hash(c["s"]) for c in cases if c["k"] in ("split", "script") and "got" in c
          and any(q in c["s"] for q in "'\"") and ";" in c["s"] and len(c["got"]) >= 1}
    special = set(",\t\"\n\r\\") | {chr(i) for i in range(32)}
    nt |= {vlib.case_hash([c["fmt"], c["names"], c["rows"]]) for c in cases if c["k"] == "fmt"
           and any(isinstance(x, str) and (set(x) & special) for r in c["rows"] for x in r)}
    ck.coverage.update({
        "evaluations": len(cases),
        "distinct_nontrivial": len(nt),
        "rule": "split: every string of length <= %d over {a, space, ;, ', \", \\, `, LF, -} (all through the implementation and the Rust reference lexer; those of length <= %d also through the Coq model) + random strings over an alphabet with quotes, doubled quotes, "
                "backslashes, comments markers and Unicode white space / look-alikes (U+00A0, U+2003, U+0085, U+200B, U+FEFF, U+180E ...); script: 1-4 SELECT "
                "statements with literals / quoted identifiers holding ; ' \" ` LF -- and doubled quotes, each validated by the real DFParser, joined with ';' and "
                "white space, empty statements interleaved; fmt: 1-3 columns (Utf8/LargeUtf8/Utf8View/Int64/Boolean, NULLs, hostile column names) x 1-5 rows x "
                "{csv,tsv,json,ndjson,automatic} x header on/off x 1 or 3 batches (one empty); non-trivial = an input with a quote and a semicolon (split) / a "
                "cell with a delimiter, quote, CR, LF, backslash or control character (fmt)" % (exh, exh_coq),
        "case_kinds": kinds, "script_classes": classes, "formats": fmts,
        "traces_validated_against_impl": len(corr),
        "comment_scripts_split_inside_comment": limitation_comment,
        "samples": [next(({k: c[k] for k in ("stmts", "s", "got")} for c in cases if c["k"] == "script" and c["cls"] == "std"), None),
                    next(({k: c[k] for k in ("fmt", "names", "rows", "out")} for c in cases if c["k"] == "fmt" and c["strings_only"]), None)],
        "trusted_base": vlib.TRUSTED_COMMON + [
            "Rust str::trim / char::is_whitespace = Unicode White_Space (modelled as is_ws; tied by the correspondence on the white-space alphabet)",
            "arrow-csv / csv-core and arrow-json / serde_json are modelled for string columns only (tied byte-for-byte by correspondence); Int64/Boolean columns and "
            "whole JSON documents are checked by the independent readers (hand-written RFC-4180 reader, csv crate reader, serde_json) only",
            "DFParser (generic dialect) decides which generated statements are valid single statements"],
    })
    ck.assumptions = ["SQL comments (-- ; and /* ; */) are outside the property's statement and not counted",
                      "CSV/TSV write NULL and the empty string identically (empty field): the round trip is on cell text with NULL read as empty",
                      "TSV is CSV-quoted with a TAB delimiter (fields holding TAB, quote, CR or LF are quoted): it reads back with a quote-aware reader, "
                      "not with a reader that splits on every TAB/LF",
                      "csv_roundtrip assumes records with at least one field and a delimiter other than quote, CR, LF"]
    return ck.finish()
