"""C17 -- memory pool accounting is exact and limits are enforced.  Tie: X (correspondence).

Coq: Model/MemPool.v (executable model of memory_pool/{mod,pool,peak_recording}.rs), Proofs/MemPoolProofs.v,
Props/C17.v.  Harness: h_execution/src/bin/c17.rs drives the real pools through the public API with random
histories; the direct oracle (P1..P8) is evaluated in the harness, the Coq model replays every history and must
reproduce every observable output after every call."""
import json
import os
import vlib
from vlib import Check

RACE_KEY = "C17-fair-shared-reservation-race"


def r_cfg(c):
    k = c[0]
    if k == "unbounded":
        return "(PUnbounded 0)"
    if k == "greedy":
        return "(PGreedy %d 0)" % c[1]
    if k == "fair":
        return "(PFair %d 0 0 0)" % c[1]
    if k == "track":
        return "(PTrack %s [])" % r_cfg(c[1])
    if k == "peak":
        return "(PPeak %s 0 0 0)" % r_cfg(c[1])
    raise ValueError(c)


OPS = {"tg": "OTryGrow", "g": "OGrow", "sh": "OShrink", "tsh": "OTryShrink", "rs": "OResize", "trs": "OTryResize",
       "free": "OFree", "split": "OSplit", "take": "OTake", "ne": "ONewEmpty", "drop": "ODrop"}


def r_op(o):
    if o[0] == "reg":
        return "ORegister %s" % ("true" if o[1] else "false")
    if o[0] == "reset":
        return "OResetPeak"
    return "%s %s" % (OPS[o[0]], " ".join(str(int(x)) for x in o[1:]))


def r_out(o):
    k = o["o"]
    if k == "done":
        return "Done"
    if k == "donen":
        return "(DoneN %d)" % o["v"]
    if k == "new":
        return "(New %d)" % o["v"]
    return {"err": "Err", "panic": "Panic", "nosuch": "NoSuch"}[k]


def r_obs(o):
    sz = "[" + "; ".join("(%d, %d)" % (a, b) for a, b in o["sz"]) + "]"
    met = "[" + "; ".join("[" + "; ".join("mkTrk %d %d %d" % (a, b, c) for a, b, c in layer) + "]" for layer in o["met"]) + "]"
    pk = "[" + "; ".join("(%d, %d)" % (a, b) for a, b in o["pk"]) + "]"
    return "Obs %s %s %d %s %s" % (r_out(o), sz, o["res"], met, pk)


def render(c):
    return "C17Case %s\n [%s]\n [%s]" % (r_cfg(c["cfg"]), "; ".join(r_op(o) for o in c["ops"]),
                                        ";\n  ".join(r_obs(o) for o in c["obs"]))


def base_of(cfg):
    while cfg[0] in ("track", "peak"):
        cfg = cfg[1]
    return cfg[0]


def wrappers_of(cfg):
    w = []
    while cfg[0] in ("track", "peak"):
        w.append(cfg[0])
        cfg = cfg[1]
    return "+".join(w) or "none"


def run(pid, tier, seed, replay):
    if replay:
        try:
            rp = json.load(open(replay))
            seed = int(rp.get("seed", seed))
            tier = rp.get("tier", tier)
        except Exception as e:  # the replay is the seed + tier: generation is deterministic
            print("cannot read replay file %s: %s" % (replay, e))
    ck = Check(pid, tier, seed, level="proof")
    n, nconc = (300, 20) if tier == "quick" else (8000, 300)
    # ---- proofs
    ck.proof_step(extra_targets=["Model/MemPool.vo"])
    # ---- build + run the implementation
    ok, out, dt = vlib.cargo_build("h_execution", bin="c17")
    ck.log("cargo build h_execution/c17: ok=%s (%.0fs)" % (ok, dt))
    if not ok:
        ck.problem("tie", "harness build failed:\n" + out[-3000:])
        return ck.finish()
    rc, so, se, dt = vlib.run_bin("c17", ["--seed", seed, "--n", n, "--conc", nconc])
    cases = vlib.jsonl(so)
    ck.log("harness: %d records in %.1fs" % (len(cases), dt))
    if rc != 0:
        ck.problem("tie", "harness run ended abnormally rc=%d: %s" % (rc, se[-1500:]))
    seqs = [c for c in cases if c["k"] == "seq"]
    concs = [c for c in cases if c["k"] == "conc"]
    races = [c for c in cases if c["k"] == "race"]
    if not seqs:
        ck.problem("tie", "harness produced no sequential histories")
        return ck.finish()
    # ---- direct property oracle on the implementation's own outputs (evaluated in the harness: P1..P8)
    for c in seqs:
        if not c["ok"]:
            ck.fail_input("pool %s: %s" % (json.dumps(c["cfg"]), c["bad"]),
                          {"k": "seq", "cfg": c["cfg"], "ops": c["ops"], "violated": c["bad"], "obs": c["obs"]})
    for c in concs:
        if not c["ok"]:
            ck.fail_input("threads on pool %s: %s" % (json.dumps(c["cfg"]), c["bad"]), c)
    # ---- correspondence: the Coq model replays every history and must print exactly the same outputs
    if os.path.exists(os.path.join(vlib.COQ, "Model/MemPool.vo")):
        pre = "From DF Require Import Base.Prelude Model.MemPool.\nOpen Scope N_scope."
        bad, log, dt = vlib.coq_eval_cases(pre, "c17_case", "c17_check", [render(c) for c in seqs], shard=20, tag="c17")
        ck.log("correspondence: %d histories (%d calls), %d disagreements (%.1fs)"
               % (len(seqs), sum(len(c["ops"]) for c in seqs), len(bad), dt))
        if bad:
            first = bad[0]
            if isinstance(first, int):
                c = seqs[first]
                detail = {"cfg": c["cfg"], "ops": c["ops"], "obs": c["obs"]}
            else:
                detail = log
            ck.problem("tie", "model and implementation disagree on %d histories; first: %s" % (len(bad), str(detail)[:1500]))
    else:
        ck.problem("tie", "Model/MemPool.vo missing: correspondence not evaluated")
    # ---- coverage
    calls = sum(len(c["ops"]) for c in seqs)
    outs = {}
    for c in seqs:
        for o in c["obs"]:
            outs[o["o"]] = outs.get(o["o"], 0) + 1
    nontrivial = set()
    for c in seqs:
        ks = {o["o"] for o in c["obs"]}
        grew = any(o["res"] > 0 for o in c["obs"])
        if grew and ("err" in ks or "panic" in ks):
            nontrivial.add(vlib.case_hash({"cfg": c["cfg"], "ops": c["ops"]}))
    bases, wraps = {}, {}
    for c in seqs:
        bases[base_of(c["cfg"])] = bases.get(base_of(c["cfg"]), 0) + 1
        wraps[wrappers_of(c["cfg"])] = wraps.get(wrappers_of(c["cfg"]), 0) + 1
    s0 = seqs[0]
    sample = {"k": "seq", "cfg": s0["cfg"], "ops": s0["ops"], "obs_first_3": s0["obs"][:3], "ok": s0["ok"]}
    race_note = None
    if races:
        r = races[0]
        if r.get("exceeds"):
            race_note = ("FairSpillPool, two threads sharing ONE spillable reservation: both try_grow(100) granted on a "
                         "100-byte pool (reservation ends at %d, reserved()=%d): the share check reads reservation.size() "
                         "inside the pool call but the size is only added after the call returns. Reproduced "
                         "deterministically on the real pool (harness k=race). The property's per-call guarantee is "
                         "proved for sequential/atomic calls only." % (r["size"], r["reserved"]))
            known = [k for k in vlib.load_known().get("findings", []) if k.get("property") == pid and k.get("key") == RACE_KEY]
            if known:
                ck.failing.append({"what": race_note, "case": r, "key": RACE_KEY})
            else:
                ck.notes.append(race_note)
    ck.coverage.update({
        "evaluations": len(seqs) + len(concs),
        "distinct_nontrivial": len(nontrivial),
        "rule": "seq: random histories of 8..37 public-API calls + final drops over 1..3 consumers (spillable or not) and up to 6 "
                "reservations, pool = base {unbounded, greedy(L), fair(L)} with L in {0,1,..,64} under wrappers "
                "{none, track, peak, peak(track), track(peak), track(track), peak(peak(track))}; sizes drawn from "
                "{0,1,remaining,remaining+1,size,size+1,size/2,L/2,L,random}; half the histories use fallible growth only; "
                "non-trivial = distinct (pool, history) in which memory was actually reserved AND at least one call was "
                "refused (Err or panic). conc: 2..3 OS threads x 4..8 rounds x 40..240 calls on shared+private reservations, "
                "predicates checked at every barrier and at the end (oracle only).",
        "sequential_histories": len(seqs), "sequential_calls": calls, "outcomes": outs,
        "base_pools": bases, "wrappers": wraps,
        "thread_runs": len(concs), "thread_calls": sum(c["calls"] for c in concs),
        "thread_refusals": sum(c["refused"] for c in concs),
        "thread_quiescent_checks": sum(c["quiescent_checks"] for c in concs),
        "samples": [sample] + concs[:1] + races[:1],
        "trusted_base": vlib.TRUSTED_COMMON + [
            "usize = u64; histories whose pool total would reach 2^64 are outside the model (answer Overflow)",
            "the harness-side forwarding pool DynPool (lets TrackConsumersPool<I> wrap an already built Arc<dyn MemoryPool>) "
            "and GatePool (holds a thread after inner.try_grow returned) only forward the trait methods",
            "each public call is one atomic step in the proved model (reservation atomic + one pool call); OS-thread "
            "interleavings inside a call are covered by the thread tier's oracle only"],
    })
    ck.assumptions = ["64-bit usize", "calls on one reservation/pool are linearizable at call granularity for the proved theorems",
                      "pool wrapped by PeakRecordingPool/TrackConsumersPool is empty when wrapped (as their docs require)"]
    return ck.finish()
