"""shared by C35 / C36: evaluation of the generated enum-table check inside coqc"""
import re
import vlib


def cs(s):
    return '"' + s.replace('"', '""') + '"'


def table_report(ck, pid, setname, gen, info):
    """compile the regenerated tables alone and read the executable table check: failing variants are failing inputs"""
    ok, out, dt = vlib.coq_make([gen + "o"])
    if not ok:
        ck.problem("translator", "generated %s does not compile:\n%s" % (gen, out[-1500:]))
        return None
    mod = gen[:-2].replace("/", ".")
    pre = "From Coq Require Import List String ZArith.\nFrom DF Require Import Model.ProtoCodec %s.\nImport ListNotations.\nOpen Scope string_scope.\n" % mod
    rc, flat = vlib.coq_eval_term(pre, "(map (fun r => (fst (fst (fst r)), snd (fst r), snd r)) generated_tables_%s, generated_stale_%s)" % (setname, setname),
                                  tag=pid.lower() + "_tables")
    if rc != 0:
        ck.problem("translator", "evaluating the generated tables failed: " + flat[-800:])
        return None
    byname = {t["name"]: t for t in info["tables"]}
    bad_total = 0
    # entries look like ("JoinType", [], [])  /  ("X", ["A"; "B"], [("A", "B")])
    for m in re.finditer(r'\("(\w+)", (\[[^\]]*\]|nil), (\[(?:[^\]]*)\]|nil)\)', flat):
        name, bad, clash = m.group(1), re.findall(r'"(\w+)"', m.group(2)), re.findall(r'\("(\w+)", "(\w+)"\)', m.group(3))
        t = byname.get(name)
        if t is None:
            continue
        for v in bad:
            bad_total += 1
            tag = t["enc"].get(v)
            num = t["nums"].get(tag) if t.get("nums") else None
            decoded = t["dec"].get(tag, t.get("dec_default"))
            ck.fail_input("table %s: variant %s is encoded as %s%s and decoded as %s (encode match %s, decode match %s)"
                          % (name, v, tag, "" if num is None else " = %d" % num, decoded, t["enc_at"], t["dec_at"]),
                          {"table": name, "variant": v, "wire_tag": tag, "wire_number": num, "decoded": decoded,
                           "encode_match": t["enc_at"], "decode_match": t["dec_at"]})
        for a, b in clash:
            ck.fail_input("table %s: variants %s and %s share the wire tag %s" % (name, a, b, t["enc"].get(a)),
                          {"table": name, "variants": [a, b], "wire_tag": t["enc"].get(a), "encode_match": t["enc_at"]})
    return {"bad": bad_total, "raw": flat[-400:]}


