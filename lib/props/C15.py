"""C15 -- exchange (distribution) channels lose nothing, keep order, close correctly, never deadlock.
Tie: X (poll-granularity replay: same schedule, same outcomes AND same woken-waker lists).

Coq: Model/DistChan.v (one Gallina function per operation of repartition/distributor_channels.rs over the module's own
fields), Proofs/DistChanProofs.v + DistChanSteps.v + DistChanThms.v, Props/C15.v; Model/DistChanFine.v = gate-access-granularity model, explored exhaustively within a preemption bound (a test).
Harness: h_physplan/src/bin/c15.rs drives the real channels single-threaded at poll granularity with hand-rolled
wakers (direct oracle against a plain FIFO reference, quiescence / deadlock judged by a fair hand-rolled executor),
plus threaded tokio stress runs with a watchdog (oracle only)."""
import json
import re
import vlib
from vlib import Check, zlit, zlist

RES = {"ok": "ROk", "pending": "RPending", "none": "RNone", "unit": "RUnit"}


def r_op(o):
    k = o["op"]
    if k == "send":
        return "SendPoll %d%%nat %s %s" % (o["c"], zlit(o["w"]), zlit(o["x"]))
    if k == "recv":
        return "RecvPoll %d%%nat %s" % (o["c"], zlit(o["w"]))
    return "%s %d%%nat" % ({"clone": "CloneS", "drops": "DropS", "dropr": "DropR"}[k], o["c"])


def r_out(o):
    r = o["r"]
    if r == "err":
        res = "RErr %s" % zlit(o["rx"])
    elif r == "some":
        res = "RSome %s" % zlit(o["rx"])
    else:
        res = RES[r]
    return "(%s, %s)" % (res, zlist(o["wk"]))


def project(c, g):
    """operations of gate g that touch shared state (cancelling a pending future touches none: no Drop impl)"""
    return [o for o in c["ops"] if o["g"] == g and not o["op"].startswith("cancel")]


def render(n, ops):
    return "C15 %d%%nat\n [%s]\n [%s]" % (n, "; ".join(r_op(o) for o in ops), "; ".join(r_out(o) for o in ops))


def run(pid, tier, seed, replay):
    if replay:
        try:
            rp = json.load(open(replay))
            seed = int(rp.get("seed", seed))
            tier = rp.get("tier", tier)
        except Exception as e:  # the replay is the seed + tier: generation is deterministic
            print("cannot read replay file %s: %s" % (replay, e))
    ck = Check(pid, tier, seed, level="proof")
    n, nstress, nrace = (1500, 60, 3000) if tier == "quick" else (40000, 2000, 30000)
    ck.proof_step(extra_targets=["Model/DistChan.vo", "Model/DistChanFine.vo"])
    ok, out, dt = vlib.cargo_build("h_physplan", bin="c15")
    ck.log("cargo build: ok=%s (%.0fs)" % (ok, dt))
    if not ok:
        ck.problem("tie", "harness build failed:\n" + out[-3000:])
        return ck.finish()
    rc, so, se, dt = vlib.run_bin("c15", ["--seed", seed, "--n", n, "--stress", nstress, "--race", nrace], timeout=3000)
    cases = vlib.jsonl(so)
    if rc != 0:
        ck.problem("tie", "harness ended abnormally rc=%d: %s" % (rc, se[-1500:]))
    sched = [c for c in cases if c.get("k") == "sched"]
    stress = [c for c in cases if c.get("k") == "stress"]
    probe = ([c for c in cases if c.get("k") == "drop_race_probe"] or [{}])[0]
    if not sched:
        ck.problem("tie", "harness produced no cases")
        return ck.finish()
    ck.log("harness: %d poll-granularity schedules (%d operations), %d threaded stress runs (%.1fs)"
           % (len(sched), sum(len(c["ops"]) for c in sched), len(stress), dt))
    # ---- direct oracle (evaluated in the harness on the implementation's own outputs)
    for c in sched:
        if not c["ok"]:
            ck.fail_input("distribution channels (poll-granularity schedule): " + c["why"],
                          {k: c.get(k) for k in ("mode", "groups", "n", "ops", "panic")})
    shared = [c for c in cases if c.get("k") == "shared_waker"]
    for c in shared:
        if not c["ok"]:
            ck.fail_input("distribution channels (one task awaiting several sends with one waker): " + c["why"], c)
    ck.coverage["shared_waker_cases"] = len(shared)
    for c in stress:
        if not c["ok"]:
            ck.fail_input("distribution channels (threaded stress): " + c["why"], c)
    # ---- correspondence: the model replays every gate's schedule; outcomes and woken wakers must be identical
    good = [c for c in sched if not c.get("panic")]
    terms, origin = [], []
    for i, c in enumerate(good):
        for o in c["ops"]:
            if o["op"].startswith("cancel") and o["wk"]:
                ck.problem("tie", "dropping a pending future woke wakers %s (the model treats cancellation as a no-op): %s"
                           % (o["wk"], json.dumps({k: c.get(k) for k in ("mode", "groups", "n", "ops")})[:2000]))
        for g in range(c["groups"]):
            ops = project(c, g)
            terms.append(render(c["n"], ops))
            origin.append((i, g))
    pre = "From DF Require Import Base.Prelude Model.DistChan.\nOpen Scope Z_scope."
    bad, log, dt = vlib.coq_eval_cases(pre, "c15_case", "c15_check", terms, shard=120, tag="c15")
    ck.log("correspondence: %d gate schedules, %d disagreements (%.1fs)" % (len(terms), len(bad), dt))
    if bad:
        first = bad[0]
        if isinstance(first, int):
            i, g = origin[first]
            c = good[i]
            detail = json.dumps({"mode": c["mode"], "groups": c["groups"], "n": c["n"], "gate": g, "ops": project(c, g)})
        else:
            detail = log
        ck.problem("tie", "model and implementation disagree (outcomes or woken wakers) on %d gate schedules; first: %s"
                   % (len(bad), detail[:3000]))
    # ---- bounded exhaustive exploration of the gate-access-granularity model (a test, not a theorem)
    pres = (2, 1, 2) if tier == "quick" else (3, 2, 3)
    rc2, txt = vlib.coq_eval_term(
        "From DF Require Import Base.Prelude Model.DistChan Model.DistChanFine.\nOpen Scope Z_scope.",
        "(explore_list %d%%nat suite_small, explore_list %d%%nat suite_big, explore_list %d%%nat suite_drop_race)" % pres,
        timeout=3000, tag="c15_explore")
    nums = [int(x) for x in re.findall(r"-?\d+", txt.split("=", 1)[1].split(":")[0])] if rc2 == 0 and "=" in txt else []
    fine = {}
    if len(nums) != 12:
        ck.problem("tie", "fine-grained exploration did not evaluate: " + txt[-1500:])
    else:
        for name, v in zip(("small", "big", "drop_race"), (nums[0:4], nums[4:8], nums[8:12])):
            fine[name] = {"interleavings": v[0], "stuck": v[1], "unsafe": v[2], "counter_too_high_at_end": v[3]}
        ck.log("fine-grained model (gate-access granularity, <= %s preemptions): %s" % (list(pres), json.dumps(fine)))
        if any(fine[k]["stuck"] or fine[k]["unsafe"] for k in fine) or fine["small"]["counter_too_high_at_end"] or fine["big"]["counter_too_high_at_end"]:
            ck.problem("tie", "bounded exploration of the fine-grained model found an interleaving with a deadlock / lost wake-up / "
                              "FIFO violation / counter too low, or a counter leak outside the concurrent-drop configurations: " + json.dumps(fine))
    if probe:
        ck.log("concurrent-drop probe on the real code (informational): %s" % json.dumps(probe))
        if probe.get("control_gate_left_open"):
            ck.problem("tie", "drop probe: even sequential drops of the two ends of an empty channel left the gate open (empty_channels accounting is off, or the probe is wrong): " + json.dumps(probe))
    # ---- coverage
    res = {}
    stats = {"gate_closed": 0, "send_pending": 0, "recv_pending": 0, "receiver_dropped": 0, "sender_cloned": 0,
             "cancellation": 0, "send_err": 0, "eos": 0, "partition_aware": 0, "wake_of_send_waker": 0, "wake_of_recv_waker": 0}
    nt = set()
    for c in good:
        ks = set()
        send_w, recv_w = set(), set()
        for o in c["ops"]:
            key = o["op"] + ":" + o["r"]
            res[key] = res.get(key, 0) + 1
            ks.add(key)
            if o["op"] == "send":
                send_w.add(o["w"])
            if o["op"] == "recv":
                recv_w.add(o["w"])
        woke_s = any(w in send_w for o in c["ops"] for w in o["wk"])
        woke_r = any(w in recv_w for o in c["ops"] for w in o["wk"])
        stats["gate_closed"] += "send:pending" in ks
        stats["send_pending"] += "send:pending" in ks
        stats["recv_pending"] += "recv:pending" in ks
        stats["receiver_dropped"] += "dropr:unit" in ks
        stats["sender_cloned"] += "clone:unit" in ks
        stats["cancellation"] += ("cancel_send:unit" in ks) or ("cancel_recv:unit" in ks)
        stats["send_err"] += "send:err" in ks
        stats["eos"] += "recv:none" in ks
        stats["partition_aware"] += c["mode"] == "partition_aware"
        stats["wake_of_send_waker"] += woke_s
        stats["wake_of_recv_waker"] += woke_r
        if "send:pending" in ks and woke_s and "recv:some" in ks and c["n"] >= 2:
            nt.add(vlib.case_hash([c["mode"], c["groups"], c["n"], [(o["op"], o["g"], o["c"], o["r"]) for o in c["ops"]]]))
    ck.coverage.update({
        "evaluations": len(sched) + len(stress),
        "distinct_nontrivial": len(nt),
        "rule": "poll-granularity schedules on channels(n) (4/5) or partition_aware_channels(1..3, n) (1/5), n in 1..4, up to 3 sender handles per "
                "channel (clone), 8..57 random operations drawn with one of 6 weight profiles from: new send future + poll, re-poll of a pending send "
                "future (woken ones preferred, spurious polls included), recv poll, clone, sender drop, receiver drop, cancellation of a pending "
                "send/recv future; then a fair hand-rolled executor: re-poll woken futures to quiescence, receivers drain, all senders dropped, drain to "
                "end-of-stream. non-trivial = at least 2 channels, a send blocked by the closed gate, a send waker woken, and a value received; counted as "
                "distinct (constructor, groups, n, sequence of (operation, gate, channel, result))",
        "schedule_stats": stats,
        "operation_results": res,
        "operations": sum(len(c["ops"]) for c in sched),
        "stress_runs": len(stress),
        "stress_values_received": sum(c.get("received", 0) for c in stress),
        "fine_grained_exploration": {"preemption_bounds": {"small": pres[0], "big": pres[1], "drop_race": pres[2]}, "result": fine},
        "concurrent_drop_probe_informational": probe,
        "traces_validated_against_impl": len(terms),
        "samples": [{k: good[i].get(k) for k in ("mode", "groups", "n", "ops")} for i in (0, min(7, len(good) - 1))] if good else [],
        "trusted_base": vlib.TRUSTED_COMMON + [
            "the theorems treat each poll / clone / drop as ONE atomic step; the Rust code holds the channel mutex for the whole body of SendFuture::poll, "
            "RecvFuture::poll, DistributionReceiver::drop and the last-sender section of DistributionSender::drop, but the gate (SeqCst atomic counter + "
            "its own mutex) is shared between channels and n_senders is decremented outside the channel mutex: interleavings at the level of individual "
            "gate / n_senders accesses are only explored (bounded, exhaustively within a preemption bound) on Model/DistChanFine.v and exercised by the "
            "threaded stress runs, not proved; Model/DistChanFine.v itself is tied to the implementation only by reading the source (same statements, same "
            "order) and by the concurrent-drop probe, which reproduces on the real code the one anomaly the exploration found",
            "sequentially consistent memory (all atomics in the module are SeqCst); parking_lot mutexes",
            "the hand-rolled executor of the harness (raw pointers give the futures a 'static borrow of their handle; pending futures of a handle are "
            "cancelled before the handle is dropped, as the borrow checker would force)",
            "cancelling (dropping) a pending SendFuture/RecvFuture is a no-op on shared state (neither has a Drop impl); the harness performs "
            "cancellations, the model skips them, and the replay would disagree if they had any effect"],
    })
    ck.assumptions = ["theorems quantify over all interleavings of poll-level operations (each atomic), any number of channels, sender handles, values and any schedule length",
                      "a handle is used only while it exists (send/clone/drop need a live sender handle, recv/drop a live receiver): enforced by Rust ownership, "
                      "modelled as step = None",
                      "liveness is stated as progress (the receiver of a blocked sender's channel can always receive, and draining it wakes every blocked "
                      "sender and lets the send succeed), not as fairness of the tokio scheduler"]
    return ck.finish()
