"""C33 -- expression evaluation strategies agree with row-by-row SQL semantics.  Tie: X."""
import vlib
from vlib import Check
from props.C01 import r_expr, r_value, r_list, cb

STREAMS = ("witness", "inset", "inchain", "inscalar", "lookup", "mask", "case1", "logic", "tree", "sel", "like")


def r_case(c):
    rows = r_list([r_list([r_value(v) for v in row]) for row in c["rows"]])
    sel = "None" if c["sel"] is None else "(Some %s)" % r_list([cb(b) for b in c["sel"]])
    obs = "None" if c["obs"] is None else "(Some %s)" % r_list([r_value(v) for v in c["obs"]])
    return "C33Case %d %s %s %s %s" % (c["kind"], rows, sel, r_expr(c["expr"]), obs)


def head(e):
    return e[0] if isinstance(e, list) and e and isinstance(e[0], str) else "?"


def cval(e):
    """value of a literal-only integer expression, None when it is not one (or fails)"""
    if not isinstance(e, list) or not e:
        return None
    if e[0] == "lit":
        return e[1] if isinstance(e[1], int) and not isinstance(e[1], bool) else None
    if e[0] == "arith":
        a, b = cval(e[2]), cval(e[3])
        if a is None or b is None:
            return None
        if e[1] == "+":
            return a + b
        if e[1] == "-":
            return a - b
        if e[1] == "*":
            return a * b
        return None
    return None


def has_const_div0(e):
    """some sub-expression divides by a literal-only expression whose value is 0"""
    if not isinstance(e, list):
        return False
    if e and e[0] == "arith" and e[1] in ("/", "%") and cval(e[3]) == 0:
        return True
    return any(has_const_div0(x) for x in e)


def classify(c):
    """stable key of a failing input: stream + the shape of the failure (no data values)"""
    why = c.get("why", "")
    if "definitional rewriting" in why and c.get("frozen_inlist"):
        return "in-list:non-constant-element-frozen-into-static-filter"
    if "definitional rewriting" in why:
        return "%s:%s:differs-from-definition" % (c["stream"], head(c["expr"]))
    if "no single row raises" in why and has_const_div0(c["expr"]):
        return "case:constant-failing-branch-evaluated-on-empty-batch"
    if "panicked" in why or "panic" in why:
        kind = "panic"
    elif "no single row raises" in why:
        kind = "spurious-error"
    elif "row-by-row" in why:
        kind = "value"
    else:
        kind = "other"
    return "%s:%s:%s" % (c["stream"], head(c["expr"]), kind)


def brief(c):
    return {"id": c["id"], "stream": c["stream"], "types": c["types"], "rows": c["rows"][:40], "sel": c["sel"], "expr": c["expr"],
            "physical_expr": c.get("phys"), "or_chain_definition": c.get("or_chain"), "vectorised": c.get("obs"), "error": c.get("err"), "row_by_row": c.get("rowwise"),
            "replay": "build/target/debug/c33 --seed <VERIF_SEED> --n <n> --case %d" % c["id"]}


def run(pid, tier, seed, replay):
    ck = Check(pid, tier, seed, level="proof")
    n = 480 if tier == "quick" else 12000
    ck.proof_step(extra_targets=["Model/EvalStrategies.vo"])
    ok, out, dt = vlib.cargo_build("h_expr", bin="c33")
    ck.log("cargo build: ok=%s (%.0fs)" % (ok, dt))
    if not ok:
        ck.problem("tie", "harness build failed:\n" + out[-3000:])
        return ck.finish()
    rc, so, se, dt = vlib.run_bin("c33", ["--seed", seed, "--n", n])
    cases = vlib.jsonl(so)
    if rc != 0:
        ck.problem("tie", "harness ended abnormally rc=%d: %s" % (rc, se[-1500:]))
    if not cases:
        ck.problem("tie", "harness produced no cases")
        return ck.finish()
    streams, unplanned = {}, 0
    for c in cases:
        streams[c["stream"]] = streams.get(c["stream"], 0) + 1
        if not c.get("planned"):
            unplanned += 1
        if not c["ok"]:
            ck.fail_input("expression evaluation strategy disagrees with the row-by-row / definitional evaluation: " + c.get("why", "")[:300],
                          brief(c), key=classify(c))
    ck.log("harness: %d cases %s, %d not plannable (%.1fs)" % (len(cases), streams, unplanned, dt))
    if unplanned * 20 > len(cases):
        ck.problem("tie", "%d of %d generated expressions were rejected by the planner (generator defect)" % (unplanned, len(cases)))
    # correspondence: RefSQL eval_expr on every row (+ the strategy model chosen by the stream) = the engine's column
    corr = [c for c in cases if c.get("planned") and c["ref"] and c["ok"]]
    pre = "From DF Require Import Base.Prelude Model.RefSQL Model.EvalStrategies.\nOpen Scope Z_scope."
    terms = [r_case(c) for c in corr]
    bad, log, dt = vlib.coq_eval_cases(pre, "c33_case", "(fun c => c33_verdict c =? 0)", terms, shard=60, tag="c33")
    skipped = []
    if bad and not any(isinstance(b, tuple) for b in bad):
        # separate "reference raises a run-time error (overflow, division by zero): not compared" from disagreement
        sub = [terms[i] for i in bad]
        bad2, log2, dt2 = vlib.coq_eval_cases(pre, "c33_case", "c33_check", sub, shard=60, tag="c33b")
        log += log2
        dt += dt2
        if any(isinstance(b, tuple) for b in bad2):
            bad = bad2
        else:
            skipped = [bad[i] for i in range(len(bad)) if i not in set(bad2)]
            bad = [bad[i] for i in bad2]
    ck.log("correspondence: %d cases, %d not compared (reference run-time error), %d disagreements (%.1fs)" % (len(corr), len(skipped), len(bad), dt))
    if bad:
        first = bad[0]
        ck.problem("tie", "RefSQL / strategy model and implementation disagree on %d cases; first: %s"
                   % (len(bad), str(brief(corr[first]) if isinstance(first, int) else log)[:1800]))
        # RefSQL is the reference semantics: a disagreement is a concrete input on which the engine's column is not
        # the row-by-row three-valued SQL value
        for i in [b for b in bad if isinstance(b, int)][:5]:
            ck.fail_input("engine result differs from the reference SQL semantics (RefSQL eval_expr on each row / strategy model)",
                          brief(corr[i]), key="refsql:%s:%s" % (corr[i]["stream"], head(corr[i]["expr"])))
    if len(skipped) * 4 > len(corr):
        ck.problem("tie", "the reference fails on %d of %d cases: generator produces too many overflowing expressions" % (len(skipped), len(corr)))
    # coverage
    strategies = {}
    for c in corr:
        ph = c.get("phys", "")
        for tag in ("IN (SET)", "NOT IN (SET)", " IN (", "CASE", " AND ", " OR ", "LIKE"):
            if tag in ph:
                strategies[tag.strip()] = strategies.get(tag.strip(), 0) + 1
    nt = {vlib.case_hash([c["rows"], c["expr"], c["sel"]]) for c in corr
          if c["n"] >= 2 and c["obs"] is not None and len({repr(v) for v in c["obs"]}) >= 2}
    guard = sum(1 for c in cases if c["stream"] in ("mask", "case1", "logic") and c.get("planned") and c["ok"] and c["obs"] is not None
                and ('"/"' in repr(c["expr"]).replace("'", '"') or '"%"' in repr(c["expr"]).replace("'", '"')))
    ck.coverage.update({
        "evaluations": len(cases),
        "distinct_nontrivial": len(nt),
        "rule": "typed expression trees of depth <= 4 over nullable Int64/Boolean/Utf8 columns (Int8/16/32, UInt8 needles in the IN and lookup streams), "
                "batches of 0, 1, 2..70 and 100..140 rows with per-column NULL density 0/15/60/100%; IN lists of 0..40 literals with NULLs and duplicates "
                "(every static-filter cut-off crossed), dynamic lists, scalar needles; CASE with 1..20 branches; AND/OR with all-true / all-false / sparse / dense / "
                "NULL left sides and right sides failing exactly where guarded; evaluate_selection with all / none / sparse / dense masks; "
                "non-trivial = a compared case with >= 2 rows whose result column has >= 2 distinct values",
        "streams": streams,
        "physical_shapes_seen": strategies,
        "guarded_fallible_cases_without_error": guard,
        "traces_validated_against_impl": len(corr) - len(skipped),
        "reference_runtime_error_not_compared": len(skipped),
        "samples": [brief(next(c for c in cases if c["stream"] == s)) for s in ("inset", "mask") if any(c["stream"] == s for c in cases)],
        "trusted_base": vlib.TRUSTED_COMMON + [
            "Arrow compute kernels (cmp, numeric, boolean, filter, take, zip, like) are exercised through the engine and compared with the reference, not modelled",
            "hash-set / bitmap / branchless membership tests are modelled as membership in the set of non-NULL list values (hashing itself is not modelled)",
            "LIKE / ILIKE: direct oracle (vectorised = row by row) only; RefSQL has no LIKE",
        ],
    })
    ck.assumptions = ["values are Int64-range integers, booleans and UTF-8 strings compared bytewise (RefSQL's fragment); VRat excluded (plain)",
                      "the f32 pre-selection threshold is modelled as 5 * count <= len (exact for batches below 2^20 rows)",
                      "integer +,-,* wrap in the engine (fail_on_overflow = false) while the reference raises: overflowing cases are not compared"]
    return ck.finish()
