"""C52 -- qualified names round-trip through their quoted text form.  Tie: X (correspondence).

Proof: Props/C52.v over Model/Idents.v (all strings, unbounded).  Implementation: harness bin c52 runs the real
TableReference::to_quoted_string -> parse_str and Column::quoted_flat_name -> from_qualified_name.
Oracle: parsed-back object == original.  Correspondence: the model's printed text, Display text and re-parse are
equal to the implementation's on every case, and the model parser agrees on arbitrary text."""
import vlib
from vlib import Check, coq_bool

# the theorems' side condition (Model/Idents.v ref_ok / col_ok), recomputed here from the raw input
def in_hypothesis(c):
    if c["k"] == "tr":
        return len(c["parts"]) == 1 or all(len(p) > 0 for p in c["parts"])
    if c["k"] == "col":
        return len(c["rel"]) == 0 or (all(len(p) > 0 for p in c["rel"]) and len(c["name"]) > 0)
    return True


EMPTY_PART = ("reference with an empty part (2/3-part TableReference or qualified Column) does not round-trip: "
              "needs_quotes(\"\") is false, the quoted text gets a leading/doubled/trailing '.', parse_str falls back to one bare name")


def nl(xs):
    return "[" + "; ".join(str(int(x)) for x in xs) + "]"


def nll(xss):
    return "[" + "; ".join(nl(x) for x in xss) + "]"


def render(c):
    if c["k"] == "tr":
        return "CTr %s %s %s %s" % (nll(c["parts"]), nl(c["text"]), nl(c["disp"]), nll(c["back"]))
    if c["k"] == "col":
        return "CCol %s %s %s %s %s %s" % (nll(c["rel"]), nl(c["name"]), nl(c["text"]), nl(c["flat"]),
                                         nll(c["back_rel"]), nl(c["back_name"]))
    if c["k"] == "parse":
        return "CParse %s %s %s %s %s" % (nl(c["text"]), coq_bool(c["ic"]), nll(c["tr"]), nll(c["col_rel"]), nl(c["col_name"]))
    raise ValueError(c)


def show(cps):
    return "".join(chr(x) for x in cps)


def describe(c):
    if c.get("panic"):
        return "panic in %s on %s" % (c["k"], {k: v for k, v in c.items() if k not in ("k", "ok", "panic")})
    if c["k"] == "tr":
        return "TableReference parts=%r -> to_quoted_string=%r -> parse_str parts=%r (expected the original parts)" % (
            [show(p) for p in c["parts"]], c.get("text_s"), [show(p) for p in c["back"]])
    if c["k"] == "col":
        return "Column relation=%r name=%r -> quoted_flat_name=%r -> from_qualified_name relation=%r name=%r" % (
            [show(p) for p in c["rel"]], show(c["name"]), c.get("text_s"), [show(p) for p in c["back_rel"]], show(c["back_name"]))
    if c["k"] == "inj":
        return "quote_identifier(%r) == quote_identifier(%r) == %r" % (show(c.get("a", [])), show(c.get("b", [])), c.get("text_s"))
    return str(c)[:400]


def run(pid, tier, seed, replay):
    ck = Check(pid, tier, seed, level="proof")
    n = 1500 if tier == "quick" else 40000
    proof_ok = ck.proof_step()
    ok, out, dt = vlib.cargo_build("h_common", bin="c52")
    ck.log("cargo build h_common: ok=%s (%.0fs)" % (ok, dt))
    if not ok:
        ck.problem("tie", "harness build failed:\n" + out[-3000:])
        return ck.finish()
    rc, so, se, dt = vlib.run_bin("c52", ["--seed", seed, "--n", n])
    cases = vlib.jsonl(so)
    if rc != 0:
        ck.problem("tie", "harness run ended abnormally rc=%d: %s" % (rc, se[-1500:]))
    if not cases:
        ck.problem("tie", "harness produced no cases")
        return ck.finish()
    uni = [c for c in cases if c["k"] == "uni"]
    table = uni[0]["table"] if uni else []
    cases = [c for c in cases if c["k"] != "uni"]
    kinds = {}
    for c in cases:
        kinds[c["k"]] = kinds.get(c["k"], 0) + 1

    # ---- direct property oracle on the implementation's own output (independent of the model)
    inside = [c for c in cases if c["k"] in ("tr", "col") and in_hypothesis(c)]
    outside = [c for c in cases if c["k"] in ("tr", "col") and not in_hypothesis(c)]
    for c in cases:
        if c["k"] in ("tr", "col") and not in_hypothesis(c):
            continue
        if not c.get("ok", True):
            ck.fail_input(describe(c), c)
    # outside the theorems' side condition (an empty part): report what the implementation does
    out_fail = [c for c in outside if not c.get("ok", True)]
    out_panic = [c for c in outside if c.get("panic")]
    for c in out_panic:
        ck.fail_input(describe(c), c)
    known = [k for k in vlib.load_known().get("findings", []) if k.get("property") == pid and k.get("key") == EMPTY_PART]
    if out_fail and known:
        ck.fail_input(EMPTY_PART, {"example": describe(out_fail[0]), "count": len(out_fail)})
    ck.notes.append("inputs outside the side condition (some part empty in a 2/3-part reference or qualified column): "
                    "%d generated, %d round-trip, %d do not (e.g. %s). The model predicts exactly this behaviour "
                    "(theorem C52_empty_part_refuted); reported as suspected defect, not as a violation of the proved statement."
                    % (len(outside), len(outside) - len(out_fail), len(out_fail), describe(out_fail[0]) if out_fail else "-"))

    # ---- correspondence: model vs implementation, text + re-parse, on every case (also outside the hypothesis)
    corr = [c for c in cases if c["k"] in ("tr", "col", "parse") and not c.get("panic")]
    tbl = {int(r[0]): (bool(r[1]), bool(r[2])) for r in table}
    missing = set()
    for c in corr:
        for key in ("text", "name"):
            for x in c.get(key, []):
                if x >= 128 and x not in tbl:
                    missing.add(x)
        for key in ("parts", "rel"):
            for p in c.get(key, []):
                for x in p:
                    if x >= 128 and x not in tbl:
                        missing.add(x)
    if missing:
        ck.problem("tie", "non-ASCII code points without a Unicode table row: %s" % sorted(missing)[:10])
    import os
    if os.path.exists(os.path.join(vlib.COQ, "Model/Idents.vo")):
        pre = ("From Coq Require Import List NArith Bool.\nFrom DF Require Import Base.Prelude Model.Idents.\n"
               "Import ListNotations.\nOpen Scope N_scope.\n"
               "Definition ua (c : N) : bool := one_of %s c.\nDefinition us (c : N) : bool := one_of %s c.\n"
               % (nl([k for k, v in sorted(tbl.items()) if v[0]]), nl([k for k, v in sorted(tbl.items()) if v[1]])))
        bad, log, dt = vlib.coq_eval_cases(pre, "c52_case", "c52_check ua us", [render(c) for c in corr], shard=1500, tag="c52")
        ck.log("correspondence: %d cases, %d disagreements (%.1fs)" % (len(corr), len(bad), dt))
        if bad:
            first = bad[0]
            detail = describe(corr[first]) if isinstance(first, int) else log
            if isinstance(first, int):
                detail += " raw=" + str({k: v for k, v in corr[first].items() if k != "ok"})[:500]
            ck.problem("tie", "model and implementation disagree on %d case(s); first: %s" % (len(bad), str(detail)[:1200]))

    def nontrivial(c):
        # rule: a tr/col case is non-trivial when at least one part needs quoting (the quoting/unescaping path runs)
        # and there are >= 2 parts, or the text contains an escaped quote; parse cases: text with >= 2 tokens
        if c["k"] in ("tr", "col"):
            return 34 in c.get("text", []) or 46 in c.get("text", [])
        if c["k"] == "parse":
            return len(c["text"]) >= 2
        return False
    distinct = len({vlib.case_hash({k: v for k, v in c.items() if k != "ok"}) for c in cases if nontrivial(c)})
    quoted = sum(1 for c in inside if 34 in c.get("text", []))
    escaped = sum(1 for c in inside if any(34 in p for p in c.get("parts", c.get("rel", []) + [c.get("name", [])])))
    sample = lambda k: next(({kk: vv for kk, vv in c.items()} for c in cases if c["k"] == k and 34 in c.get("text", []) and len(c.get("text", [])) > 8), None)
    ck.coverage.update({
        "evaluations": len(cases),
        "distinct_nontrivial": distinct,
        "rule": "exhaustive: every string of length <=3 over {a A 1 _ . \" space e-acute newline} (820) as a bare reference, in each position of "
                "2- and 3-part references, as column name and in relation positions (other parts random); full products over strings of length <=1; "
                "40 fixed words (keywords, literal prefixes b r n nq q e u x, digits-first, quotes, dots); random 0..6-char strings over a 56-symbol "
                "nasty alphabet (both cases, digits, _ . \" ' ` space tab CR LF backslash NUL VT, non-ASCII letters/emoji/NBSP/ideographic space/"
                "combining mark/superscript/arabic digit, - / # @ $ & ( *); parse tie: all 4681 texts of length <=4 over {a B 1 _ . \" space '} + "
                "75 hand-written texts + random texts over the modelled alphabet, both case modes. non-trivial = the text contains a quote or a '.' "
                "(tr/col) or has >= 2 characters (parse)",
        "case_kinds": kinds,
        "inside_hypothesis": len(inside),
        "inside_with_quoted_part": quoted,
        "inside_with_embedded_quote": escaped,
        "outside_hypothesis": len(outside),
        "outside_hypothesis_roundtrip_failures": len(out_fail),
        "correspondence_cases": len(corr),
        "unicode_table": table,
        "samples": [s for s in (sample("tr"), sample("col"), sample("parse")) if s],
        "trusted_base": vlib.TRUSTED_COMMON + [
            "Model/Idents.v is a hand-written model of needs_quotes/quote_identifier/to_quoted_string/parse_str/from_idents and of the slice of "
            "sqlparser 0.62 (GenericDialect tokenizer next_token, parse_multipart_identifier) they use; tokens starting with - / # @ are not modelled "
            "(cannot occur unquoted in printed text); its output is compared with the implementation on every case",
            "char::is_alphabetic / is_whitespace for non-ASCII code points are abstract in the theorems (hold for every table); the tie uses the "
            "values the Rust std reports for the generated characters",
            "datafusion-common is built with feature sql (sqlparser tokenizer), as the datafusion crate does by default; the cfg(not(feature = sql)) "
            "fallback parser in utils/mod.rs is not covered"],
    })
    ck.assumptions = ["strings are sequences of Unicode scalar values (Rust str); the theorems hold for arbitrary lists of naturals",
                      "side condition ref_ok/col_ok: no empty part in a 2/3-part reference or qualified column (needed: C52_empty_part_refuted)"]
    return ck.finish()
