"""C52 -- qualified names round-trip through their quoted text form.  Tie: X (correspondence).

Proof: Props/C52.v over Model/Idents.v (all strings, unbounded).  Implementation: harness bins c52 (datafusion-common
with feature sql: sqlparser tokenizer) and c52n (without: the fallback parser in utils/mod.rs) run the real
TableReference::to_quoted_string -> parse_str and Column::quoted_flat_name -> from_qualified_name.
Oracle: parsed-back object == original.  Correspondence: the model's printed text, Display text and re-parse are
equal to the implementation's on every case, and the model parsers agree with the real ones on arbitrary text."""
import os

import vlib
from vlib import Check, coq_bool

VARIANTS = [
    # name, crate, bin, model checker, what the build is
    ("sql", "h_common", "c52", "c52_pcheck ua us", "datafusion-common with feature sql (sqlparser)"),
    ("nosql", "h_common_nosql", "c52n", "c52_pcheck_ns", "datafusion-common without feature sql (fallback parser)"),
]


# the theorems' side conditions (Model/Idents.v ref_ok/col_ok and ref_ok_ns/col_ok_ns), recomputed from the raw input
def in_hypothesis(variant, c):
    if c["k"] == "tr":
        ps = c["parts"]
        if len(ps) == 1:
            return True
        return all(len(p) > 0 for p in ps) if variant == "sql" else len(ps[-1]) > 0
    if c["k"] == "col":
        if len(c["rel"]) == 0:
            return True
        if variant == "sql":
            return all(len(p) > 0 for p in c["rel"]) and len(c["name"]) > 0
        return len(c["name"]) > 0
    return True


# keys under which the coordinator may record the suspected defect in known_findings.json
EMPTY_PART = {
    "sql": "empty identifier part does not round-trip (sql build): needs_quotes(\"\") is false, the quoted text gets a "
           "leading/doubled/trailing '.', parse_multipart_identifier rejects it and the whole text becomes one bare name",
    "nosql": "empty last identifier part does not round-trip (build without sql): needs_quotes(\"\") is false and the fallback "
             "parse_identifiers drops an empty last piece, so the text resolves to a shorter, different reference",
}


def pack(xs):
    """three code points per 63-bit literal: (c1+1) + (c2+1)<<21 + (c3+1)<<42 (Model/C52Corr.v unpack)"""
    out = []
    for i in range(0, len(xs), 3):
        v = 0
        for j, c in enumerate(xs[i:i + 3]):
            v |= (int(c) + 1) << (21 * j)
        out.append(str(v))
    return "[" + "; ".join(out) + "]"


def packl(xss):
    return "[" + "; ".join(pack(x) for x in xss) + "]"


def nl(xs):
    return "[" + "; ".join("%d%%N" % int(x) for x in xs) + "]"


def render(c):
    if c["k"] == "tr":
        return "PTr %s %s %s %s" % (packl(c["parts"]), pack(c["text"]), pack(c["disp"]), packl(c["back"]))
    if c["k"] == "col":
        return "PCol %s %s %s %s %s %s" % (packl(c["rel"]), pack(c["name"]), pack(c["text"]), pack(c["flat"]),
                                         packl(c["back_rel"]), pack(c["back_name"]))
    if c["k"] == "parse":
        return "PParse %s %s %s %s %s" % (pack(c["text"]), coq_bool(c["ic"]), packl(c["tr"]), packl(c["col_rel"]), pack(c["col_name"]))
    raise ValueError(c)


def show(cps):
    return "".join(chr(x) for x in cps)


def describe(variant, c):
    pre = "[%s build] " % variant
    if c.get("panic"):
        return pre + "panic in %s on %s" % (c["k"], {k: v for k, v in c.items() if k not in ("k", "ok", "panic")})
    if c["k"] == "tr":
        return pre + "TableReference parts=%r -> to_quoted_string=%r -> parse_str gives parts=%r (expected the original parts)" % (
            [show(p) for p in c["parts"]], c.get("text_s"), [show(p) for p in c["back"]])
    if c["k"] == "col":
        return pre + "Column relation=%r name=%r -> quoted_flat_name=%r -> from_qualified_name gives relation=%r name=%r" % (
            [show(p) for p in c["rel"]], show(c["name"]), c.get("text_s"), [show(p) for p in c["back_rel"]], show(c["back_name"]))
    if c["k"] == "inj":
        return pre + "quote_identifier(%r) == quote_identifier(%r) == %r" % (show(c.get("a", [])), show(c.get("b", [])), c.get("text_s"))
    return pre + str(c)[:400]


def nontrivial(c):
    # rule: tr/col: the printed text contains a quote or a '.'; parse: the text has >= 2 characters
    if c["k"] in ("tr", "col"):
        return 34 in c.get("text", []) or 46 in c.get("text", [])
    if c["k"] == "parse":
        return len(c["text"]) >= 2
    return False


def run_variant(ck, variant, crate, exe, checker, seed, n, have_model, exh, plen):
    pid = ck.pid
    ok, out, dt = vlib.cargo_build(crate, bin=exe)
    ck.log("cargo build %s: ok=%s (%.0fs)" % (crate, ok, dt))
    if not ok:
        ck.problem("tie", "harness build failed (%s):\n%s" % (crate, out[-3000:]))
        return None
    rc, so, se, dt = vlib.run_bin(exe, ["--seed", seed, "--n", n, "--exh", exh, "--plen", plen])
    cases = vlib.jsonl(so)
    if rc != 0:
        ck.problem("tie", "harness %s ended abnormally rc=%d: %s" % (exe, rc, se[-1500:]))
    if not cases:
        ck.problem("tie", "harness %s produced no cases" % exe)
        return None
    uni = [c for c in cases if c["k"] == "uni"]
    table = uni[0]["table"] if uni else []
    cases = [c for c in cases if c["k"] != "uni"]
    kinds = {}
    for c in cases:
        kinds[c["k"]] = kinds.get(c["k"], 0) + 1

    # ---- direct property oracle on the implementation's own output (independent of the model)
    inside = [c for c in cases if c["k"] in ("tr", "col") and in_hypothesis(variant, c)]
    outside = [c for c in cases if c["k"] in ("tr", "col") and not in_hypothesis(variant, c)]
    for c in cases:
        if c["k"] in ("tr", "col") and not in_hypothesis(variant, c) and not c.get("panic"):
            continue
        if not c.get("ok", True):
            ck.fail_input(describe(variant, c), dict(c, variant=variant))
    # outside the theorems' side condition (an empty part): report what the implementation does
    out_fail = [c for c in outside if not c.get("ok", True) and not c.get("panic")]
    known = [k for k in vlib.load_known().get("findings", []) if k.get("property") == pid and k.get("key") == EMPTY_PART[variant]]
    if out_fail and known:
        ck.fail_input(EMPTY_PART[variant], {"example": describe(variant, out_fail[0]), "count": len(out_fail)})
    ck.notes.append("%s build: inputs outside the side condition (%s): %d generated, %d round-trip, %d do not (e.g. %s). "
                    "The model predicts exactly this behaviour (theorem %s); reported as suspected defect, not as a violation of "
                    "the proved statement."
                    % (variant,
                       "some part empty in a 2/3-part reference or qualified column" if variant == "sql"
                       else "last part / column name empty in a qualified reference",
                       len(outside), len(outside) - len(out_fail), len(out_fail),
                       describe(variant, out_fail[0]) if out_fail else "-",
                       "C52_empty_part_refuted" if variant == "sql" else "C52_ns_empty_last_refuted"))

    # ---- correspondence: model vs implementation, text + re-parse, on every case (also outside the hypothesis)
    corr = [c for c in cases if c["k"] in ("tr", "col", "parse") and not c.get("panic")]
    tbl = {int(r[0]): (bool(r[1]), bool(r[2])) for r in table}
    missing = set()
    for c in corr:
        flat = list(c.get("text", [])) + list(c.get("name", []))
        for key in ("parts", "rel"):
            for p in c.get(key, []):
                flat += p
        missing |= {x for x in flat if x >= 128 and x not in tbl}
    if missing:
        ck.problem("tie", "non-ASCII code points without a Unicode table row: %s" % sorted(missing)[:10])
    ndis = None
    if have_model:
        pre = ("From Coq Require Import List NArith Bool Uint63.\n"
               "From DF Require Import Base.Prelude Model.Idents Model.C52Corr.\n"
               "Import ListNotations.\nOpen Scope uint63_scope.\n"
               "Definition ua (c : N) : bool := one_of %s c.\nDefinition us (c : N) : bool := one_of %s c.\n"
               % (nl([k for k, v in sorted(tbl.items()) if v[0]]), nl([k for k, v in sorted(tbl.items()) if v[1]])))
        bad, log, dt = vlib.coq_eval_cases(pre, "c52_pcase", checker, [render(c) for c in corr], shard=1500, tag="c52_" + variant)
        ndis = len(bad)
        ck.log("correspondence (%s): %d cases, %d disagreements (%.1fs)" % (variant, len(corr), len(bad), dt))
        if bad:
            first = bad[0]
            if isinstance(first, int):
                detail = describe(variant, corr[first]) + " raw=" + str({k: v for k, v in corr[first].items() if k != "ok"})[:500]
            else:
                detail = log
            ck.problem("tie", "model and implementation (%s build) disagree on %d case(s); first: %s" % (variant, len(bad), str(detail)[:1200]))

    def good_sample(k):
        for c in cases:
            if c["k"] == k and c.get("ok") and 34 in c.get("text", []) and len(c.get("text", [])) > 8 and in_hypothesis(variant, c):
                return c
        return None
    return {
        "variant": variant,
        "cases": cases,
        "stats": {
            "build": [v[4] for v in VARIANTS if v[0] == variant][0],
            "exhaustive_identifier_length": exh,
            "exhaustive_parse_text_length": plen,
            "random_n": n,
            "evaluations": len(cases),
            "case_kinds": kinds,
            "inside_hypothesis": len(inside),
            "inside_with_quoted_part": sum(1 for c in inside if 34 in c.get("text", [])),
            "inside_with_embedded_quote": sum(1 for c in inside if any(34 in p for p in c.get("parts", c.get("rel", []) + [c.get("name", [])]))),
            "outside_hypothesis": len(outside),
            "outside_hypothesis_roundtrip_failures": len(out_fail),
            "correspondence_cases": len(corr),
            "correspondence_disagreements": ndis,
        },
        "table": table,
        "samples": [s for s in (good_sample("tr"), good_sample("col"), good_sample("parse")) if s],
    }


def run(pid, tier, seed, replay):
    ck = Check(pid, tier, seed, level="proof")
    n = 1500 if tier == "quick" else 20000
    ck.proof_step(extra_targets=["Model/C52Corr.vo"])
    have_model = os.path.exists(os.path.join(vlib.COQ, "Model/C52Corr.vo"))
    results = []
    only = [v for v in os.environ.get("C52_VARIANTS", "").split(",") if v]   # e.g. C52_VARIANTS=sql (default: both builds)
    for variant, crate, exe, checker, _ in VARIANTS:
        if only and variant not in only:
            ck.notes.append("build %s skipped (C52_VARIANTS=%s)" % (variant, ",".join(only)))
            continue
        # quick tier: the fallback-parser build gets the shorter exhaustive ranges (its parser is a 20-line splitter)
        exh, plen = (3, 4) if (tier != "quick" or variant == "sql") else (2, 3)
        r = run_variant(ck, variant, crate, exe, checker, seed, n if (tier != "quick" or variant == "sql") else n // 2,
                        have_model, exh, plen)
        if r:
            results.append(r)
    if not results:
        return ck.finish()
    allc = [c for r in results for c in r["cases"]]
    distinct = len({vlib.case_hash({k: v for k, v in c.items() if k != "ok"}) for c in allc if nontrivial(c)})
    ck.coverage.update({
        "evaluations": len(allc),
        "distinct_nontrivial": distinct,
        "rule": "per build (sql / nosql), same generator (quick tier: the nosql build uses length <=2 / parse texts <=3 / n/2, see per_build): exhaustive: every string of length <=3 over {a A 1 _ . \" space e-acute newline} (820) "
                "as a bare reference, in each position of 2- and 3-part references, as column name and in relation positions (other parts random); "
                "full products over strings of length <=1; 40 fixed words (keywords, literal prefixes b r n nq q e u x, digit-first, quotes, dots); "
                "random 0..6-char strings over a 56-symbol nasty alphabet (both cases, digits, _ . \" ' ` space tab CR LF backslash NUL VT, non-ASCII "
                "letters/emoji/NBSP/ideographic space/combining mark/superscript/arabic digit, - / # @ $ & ( *); parse tie: all 4681 texts of length "
                "<=4 over {a B 1 _ . \" space '} + 75 hand-written texts + random texts, both case modes. distinct_nontrivial counts distinct "
                "cases (over both builds; identical cases of the two builds count once) whose printed text contains a quote or a '.' (tr/col) or "
                "whose text has >= 2 characters (parse)",
        "per_build": {r["variant"]: r["stats"] for r in results},
        "unicode_table": results[0]["table"],
        "samples": [s for r in results for s in r["samples"]][:6],
        "trusted_base": vlib.TRUSTED_COMMON + [
            "Model/Idents.v is a hand-written model of needs_quotes/quote_identifier/to_quoted_string/parse_str/from_idents, of the slice of "
            "sqlparser 0.62 (GenericDialect tokenizer next_token, parse_multipart_identifier) they use with feature sql, and of the fallback "
            "parse_identifiers without it; tokens starting with - / # @ are not modelled for the sql tokenizer (they cannot occur unquoted in "
            "printed text); the model's output is compared with the implementation on every case",
            "char::is_alphabetic / is_whitespace for non-ASCII code points are abstract in the theorems (they hold for every table); the tie uses "
            "the values the Rust std reports for the generated characters",
            "Model/C52Corr.v unpacks the case encoding (3 code points per 63-bit literal) written by lib/props/C52.py"],
    })
    ck.assumptions = ["strings are sequences of Unicode scalar values (Rust str); the theorems hold for arbitrary lists of naturals",
                      "side condition, sql build (ref_ok/col_ok): no empty part in a 2/3-part reference or qualified column "
                      "(necessary: C52_empty_part_refuted)",
                      "side condition, build without sql (ref_ok_ns/col_ok_ns): last part / column name not empty "
                      "(necessary: C52_ns_empty_last_refuted)"]
    return ck.finish()
