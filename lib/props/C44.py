"""C44 -- files with a differing schema are read faithfully into the table schema.  Tie: X."""
import vlib
from vlib import Check, zlit

TY = {"Int32": "TInt32", "Int64": "TInt64", "Utf8": "TUtf8", "LargeUtf8": "TLargeUtf8", "Boolean": "TBool"}
OPS = {"eq": "OEq", "ne": "ONe", "lt": "OLt", "le": "OLe", "gt": "OGt", "ge": "OGe"}


class Unmodelled(Exception):
    pass


def txt(s):
    return "[" + "; ".join(str(b) for b in s.encode("utf-8")) + "]"


def r_ty(t):
    if t not in TY:
        raise Unmodelled(t)
    return TY[t]


def r_val(t, v):
    """a value of arrow type t"""
    if v is None:
        return "VNull"
    if t == "Int32":
        return "VI32 %s" % zlit(v)
    if t == "Int64":
        return "VI64 %s" % zlit(v)
    if t == "Utf8":
        return "VUtf8 %s" % txt(v)
    if t == "LargeUtf8":
        return "VLUtf8 %s" % txt(v)
    if t == "Boolean":
        return "VBool %s" % ("true" if v else "false")
    raise Unmodelled(t)


def r_schema(s):
    return "[" + "; ".join("mkField %s %s %s" % (txt(n), r_ty(t), "true" if nl else "false") for n, t, nl in s) + "]"


def r_row(schema, row):
    return "[" + "; ".join(r_val(f[1], v) for f, v in zip(schema, row)) + "]"


def r_rows(schema, rows):
    return "[" + "; ".join(r_row(schema, r) for r in rows) + "]"


def r_expr(e):
    (k, a), = e.items()
    if k == "col":
        return "(ECol %s %d%%nat)" % (txt(a[0]), a[1])
    if k == "lit":
        return "(ELit (%s))" % r_val(a[0], a[1])
    if k == "cast":
        return "(ECast %s %s)" % (r_expr(a[0]), r_ty(a[1]))
    if k == "cmp":
        return "(ECmp %s %s %s)" % (OPS[a[0]], r_expr(a[1]), r_expr(a[2]))
    if k == "and":
        return "(EAnd %s %s)" % (r_expr(a[0]), r_expr(a[1]))
    if k == "or":
        return "(EOr %s %s)" % (r_expr(a[0]), r_expr(a[1]))
    if k == "not":
        return "(ENot %s)" % r_expr(a)
    if k == "isnull":
        return "(EIsNull %s)" % r_expr(a)
    if k == "isnotnull":
        return "(EIsNotNull %s)" % r_expr(a)
    raise Unmodelled(k)


def expr_type(e, tbl):
    """arrow type of the value of an expression over the table schema"""
    (k, a), = e.items()
    if k == "col":
        return tbl[a[1]][1]
    if k == "lit":
        return a[0]
    if k == "cast":
        return a[1]
    return "Boolean"


def r_opt(x, f):
    return "None" if x is None else "(Some %s)" % f(x)


def r_vals(t, vs):
    return "[" + "; ".join(r_val(t, v) for v in vs) + "]"


def render(c):
    """the Coq c44_case terms of one harness line (raises Unmodelled outside the modelled fragment)"""
    if c["k"] == "castable":
        return ["CCastable %s %s %s" % (r_ty(c["from"]), r_ty(c["to"]), "true" if c["obs"] else "false")]
    tbl, file = c["tbl"], c["file"]
    st, sf = r_schema(tbl), r_schema(file)
    p = r_expr(c["p"])
    rows = r_rows(file, c["rows"])
    t = expr_type(c["p"], tbl)
    return [
        "CRewrite %s %s %s %s" % (st, sf, p, r_opt(c["rewritten"], r_expr)),
        "CAdapt %s %s %s %s" % (st, sf, rows, r_opt(c["adapt"], lambda r: r_rows(tbl, r))),
        "CEval %s %s %s %s %s %s" % (st, sf, p, rows, r_opt(c["push"], lambda v: r_vals(t, v)), r_opt(c["post"], lambda v: r_vals(t, v))),
    ]


def finding_key(c):
    """stable key of the input class of an oracle failure (known findings are listed under these)"""
    return None


def run(pid, tier, seed, replay):
    ck = Check(pid, tier, seed, level="proof")
    n = 500 if tier == "quick" else 8000
    ck.proof_step(extra_targets=["Model/SchemaAdapt.vo"])
    ok, out, dt = vlib.cargo_build("h_core", bin="c44")
    ck.log("cargo build: ok=%s (%.0fs)" % (ok, dt))
    if not ok:
        ck.problem("tie", "harness build failed:\n" + out[-3000:])
        return ck.finish()
    rc, so, se, dt = vlib.run_bin("c44", ["--seed", seed, "--n", n])
    cases = vlib.jsonl(so)
    if rc != 0:
        ck.problem("tie", "harness ended abnormally rc=%d: %s" % (rc, se[-1500:]))
    if not cases:
        ck.problem("tie", "harness printed no cases")
        return ck.finish()
    kinds = {}
    for c in cases:
        kinds[c["k"]] = kinds.get(c["k"], 0) + 1
        if not c["ok"]:
            case = {k: c.get(k) for k in ("k", "tbl", "file", "rows", "p", "rewritten", "rewrite_err", "push", "push_err", "adapt", "adapt_err",
                                          "post", "panic", "desc", "sql", "got", "want") if c.get(k) is not None}
            ck.fail_input("schema adaptation: " + c.get("why", "")[:600], case, key=c.get("key") or finding_key(c))
    ck.log("harness: %s (%.1fs)" % (kinds, dt))
    # correspondence on the modelled fragment
    terms, owners, skipped = [], [], 0
    for i, c in enumerate(cases):
        if c["k"] == "castable" or (c["k"] == "flat" and c.get("modelled") and "panic" not in c):
            try:
                ts = render(c)
            except Unmodelled:
                skipped += 1
                continue
            terms += ts
            owners += [i] * len(ts)
    pre = "From DF Require Import Base.Prelude Model.SchemaAdapt.\nOpen Scope Z_scope."
    bad, log, dt = vlib.coq_eval_cases(pre, "c44_case", "c44_check", terms, shard=300, tag="c44")
    ck.log("correspondence: %d model evaluations of %d cases (%d outside the fragment), %d disagreements (%.1fs)"
           % (len(terms), len(set(owners)), skipped, len(bad), dt))
    if bad:
        first = bad[0]
        if isinstance(first, int):
            c = cases[owners[first]]
            ck.fail_input("model and implementation disagree (%s) on %d evaluations" % (terms[first].split(" ")[0], len(bad)),
                          {k: c.get(k) for k in ("tbl", "file", "rows", "p", "rewritten", "push", "adapt", "post")}, key=finding_key(c))
        ck.problem("tie", "model and implementation disagree on %d evaluations; first: %s"
                   % (len(bad), (terms[first] if isinstance(first, int) else log)[:1500]))
    flat = [c for c in cases if c["k"] == "flat" and "panic" not in c]
    nt = {vlib.case_hash([c["tbl"], c["file"], c["rows"], c["p"]]) for c in flat
          if c["ref_ok"] and c["rows"] and (c["missing"] or c["casts"] or c["reordered"])}
    ck.coverage.update({
        "evaluations": len(cases),
        "distinct_nontrivial": len(nt),
        "rule": "flat stream: table schema of 1..5 columns over Int32/Int64/Utf8/LargeUtf8/Boolean (+Utf8View) with names a,b,c,d,e,A,Ab; file schema derived from it: "
                "columns missing (1/5), sibling type (Int32<->Int64, Utf8<->LargeUtf8/Utf8View), type of another group, nullability flipped, name differing "
                "in case only, 0..2 extra columns, shuffled order, every 8th identical; 0..6 rows over edge values (i32/i64 extremes, 2^31, 5e9, '', non-ASCII, NULLs); "
                "expressions over the table schema: bare column (projection) or AND/OR/NOT trees of column-literal / column-column comparisons, IS [NOT] NULL, boolean columns; "
                "non-trivial = the by-name adaptation succeeds on a non-empty batch whose file schema has a missing, cast or reordered column (flat stream only; "
                "struct stream: struct column with 1..4 of the fields f1,f2,f3,f4,F1 read from a file struct with missing/extra/reordered/widened/narrowed fields, predicates s IS NULL, "
                "s.f IS NULL, s.f, s.f <op> literal; e2e stream: two parquet files of different schemas in one ListingTable with explicit schema, SELECT * WHERE p, pushdown_filters off/on)",
        "case_kinds": kinds,
        "adaptation_succeeds": sum(1 for c in flat if c["ref_ok"]),
        "adaptation_fails": sum(1 for c in flat if not c["ref_ok"]),
        "with_missing_column": sum(1 for c in flat if c["missing"]),
        "with_cast": sum(1 for c in flat if c["casts"]),
        "struct_cases_adaptable": sum(1 for c in cases if c["k"] == "struct" and c.get("ref_ok")),
        "struct_cases_rejected": sum(1 for c in cases if c["k"] == "struct" and c.get("ref_ok") is False),
        "e2e_cases_returning_rows": sum(1 for c in cases if c["k"] == "e2e" and c.get("nwant", 0) > 0),
        "batch_adapter_panics_known_finding": sum(1 for c in cases if c.get("key")),
        "traces_validated_against_impl": len(set(owners)),
        "model_evaluations": len(terms),
        "samples": ([c for c in flat if c["ref_ok"] and c["casts"] and c["missing"] and c["rows"]][:2] or flat[:1])
                   + [c for c in cases if c["k"] == "struct" and c.get("ref_ok")][:1] + [c for c in cases if c["k"] == "e2e" and c.get("nwant", 0) > 0][:1],
        "trusted_base": vlib.TRUSTED_COMMON + [
            "arrow cast / comparison kernels (the reference adaptation of the harness uses arrow's cast kernel for the value conversion itself; which column is "
            "read, whether a cast or NULL is used and the error cases are decided independently)",
            "struct columns, Utf8View and casts across type groups, and the parquet listing-table path are decided by the differential oracle only"],
    })
    ck.assumptions = ["theorems are about flat schemas over Int32/Int64/Utf8/LargeUtf8/Boolean with unique table column names; file rows typed by the file schema",
                      "expressions: Column, Literal, CastExpr, comparison/AND/OR BinaryExpr, NOT, IS NULL, IS NOT NULL",
                      "datafusion/datasource/src/schema_adapter.rs is a deprecated stub in the pinned tree (map_batch returns not_impl); its successor BatchAdapter is what is checked"]
    return ck.finish()
