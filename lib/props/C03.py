"""C03 -- Logical optimization preserves query results and output schema.

Proof part (coq/Model/RewriteRules.v, coq/Proofs/RewriteRulesProofs.v, coq/Props/C03.v): the rewrite PATTERNS of the
anchored optimizer rules, transcribed by hand as equations between the combinators of the reference algebra (engine E1,
Model/RefSQL.v), each with the side condition the Rust rule checks, each proved sound for all relations / predicates
(`<pattern>_sound`), plus `_refuted` witnesses for the plausible wrong variants (filter below the null-supplying side,
IS NULL as null-rejecting, dropping the outer limit over UNION ALL, LEFT JOIN with an empty right side = empty, ...).

Tie (differential, X): harness/h_core/src/bin/c03.rs builds the analysed logical plan of every generated query once and
executes it under 2 + 2R optimizer rule sets: none / all / each rule alone / each rule removed (R rules of Optimizer::new()).
 * direct oracle (Rust): every executable variant returns the same rows as the baseline (the unoptimised plan when it can
   be executed, else the default pipeline) -- as a bag, as an ORDER BY key sequence, by size under LIMIT -- and every
   optimised logical plan / result batch has the same column names and logically equal types as the original;
 * correspondence (Coq): the rows of every variant are an acceptable answer of the reference semantics (c03_check =
   C01's `agrees` + the SQL meaning of LIMIT without ORDER BY); a deviation is attributed to a known finding only if the
   reference evaluated on a query REWRITTEN to encode that deviation reproduces the engine's rows (C01's `deviate`).
"""
import json

import vlib
from vlib import Check
from props.C01 import (r_db, r_query, r_rel, known_variants, shift, has_node, constructs, unsupported, q_width)

PRE = "From DF Require Import Base.Prelude Model.RefSQL Model.RewriteRules.\nOpen Scope Z_scope."

KF5 = "C03-KF5-column-free-predicate-pushed-below-aggregate-without-group-by"
KF6 = "C03-KF6-not-in-two-valued-when-equijoin-predicate-is-not-extracted"
KF7 = "C03-KF7-sort-with-fetch-0-panics-in-TopK-when-eliminate_limit-is-absent"
KF8 = "C03-KF8-correlated-not-in-null-aware-anti-join-ignores-correlation-filter"
KF9 = "C03-KF9-stacked-filters-over-projection-with-duplicate-column-names-when-push_down_filter-is-absent"
KF5_WHAT = ("C03-KF5 push_down_filter pushes a predicate without column references (e.g. HAVING FALSE) below an Aggregate that has no "
            "GROUP BY (`cols.iter().all(..)` is vacuously true): SELECT count(*) FROM t HAVING FALSE returns one row (0) instead of "
            "no row under the rule sets {push_down_filter} and default-minus-eliminate_filter; the unoptimised plan and the default "
            "pipeline return no row")
KF6_WHAT = ("C03-KF6 x NOT IN (subquery) as a WHERE conjunct is decorrelated into a null-aware LeftAnti join whose equality stays in the "
            "join FILTER until extract_equijoin_predicate runs; without that rule (rule sets {decorrelate_predicate_subquery} and "
            "default-minus-extract_equijoin_predicate) the join is executed two-valued: rows whose NOT IN test is UNKNOWN are returned")


def r_case(c, rows):
    return "C03Case %s %s %s" % (r_db(c["tables"]), r_query(c["q"]), r_rel(rows))


def deviate_all_in(x):
    """every IN / NOT IN subquery becomes the two-valued [NOT] EXISTS (SELECT .. WHERE col = lhs)"""
    if not isinstance(x, list) or not x:
        return x
    if x[0] == "insub":
        neg, a, q = x[1], deviate_all_in(x[2]), deviate_all_in(x[3])
        return ["exists", neg, ["filter", ["cmp", "=", ["col", 0, 0], shift(a, 0)], q]]
    return [deviate_all_in(y) if isinstance(y, list) else y for y in x]


def having_const_below(x):
    """Group([], aggs, HAVING h, q) with column-free h  ->  Group([], aggs, None, Filter(h, q))"""
    if not isinstance(x, list) or not x:
        return x
    if x[0] == "group" and x[1] == [] and x[3] is not None and not has_node(x[3], lambda n: n and n[0] == "col"):
        return ["group", [], x[2], None, ["filter", x[3], having_const_below(x[4])]]
    return [having_const_below(y) if isinstance(y, list) else y for y in x]


def having_false_below(x):
    """Group([], aggs, HAVING h, q)  ->  Group([], aggs, None, Filter(FALSE, q))   (what the engine computes when h folds to FALSE)"""
    if not isinstance(x, list) or not x:
        return x
    if x[0] == "group" and x[1] == [] and x[3] is not None:
        return ["group", [], x[2], None, ["filter", ["lit", False], having_false_below(x[4])]]
    return [having_false_below(y) if isinstance(y, list) else y for y in x]


def short_key(k):
    """'C01-KF1 ... + C01-KF3 ...' -> 'C03-via-C01-KF1+KF3'.  KF2 (INTERSECT / EXCEPT ALL planned as semi / anti joins) is a defect
    of the logical plan BUILDER, present in the unoptimised plan too: it is dropped from the key; a pure KF2 deviation -> None"""
    parts = [p.strip().split(" ")[0][len("C01-"):] for p in k.split(" + ")]
    parts = [p for p in parts if p != "KF2"]
    return "C03-via-C01-" + "+".join(parts) if parts else None


def explanations(c):
    """(key, rewritten query) candidates that would explain rows differing from the reference"""
    out = []
    for key, c2 in known_variants({"q": c["q"], "tables": c["tables"]}):
        out.append((short_key(key) or "not-optimizer", c2["q"]))
    q5 = having_const_below(c["q"])
    if q5 != c["q"]:
        out.append((KF5, q5))
    q5b = having_false_below(c["q"])
    if q5b != c["q"]:
        out.append((KF5, q5b))       # a HAVING that the simplifier folds to FALSE (e.g. `.. AND FALSE`)
    if has_node(c["q"], lambda n: n and n[0] == "insub"):
        out.append((KF6, deviate_all_in(c["q"])))
    return out


def _corr(x):
    """does the JSON contain a column reference that escapes its own scope (depth >= 1)"""
    if isinstance(x, list):
        if x and x[0] == "col":
            return x[1] >= 1
        return any(_corr(y) for y in x)
    return False


def stacked_filters_dup_names(plan):
    """Filter directly over Projection directly over Filter, the projection listing two columns with the same unqualified name"""
    if not plan:
        return False
    ls = plan.split("\n")
    for i in range(len(ls) - 2):
        a, b, c_ = ls[i].lstrip(), ls[i + 1].lstrip(), ls[i + 2].lstrip()
        if a.startswith("Filter:") and b.startswith("Projection:") and c_.startswith("Filter:"):
            names = [x.strip().split(".")[-1] for x in b[len("Projection:"):].split(",")]
            if len(set(names)) < len(names):
                return True
    return False


def filter_over_right_join_same_names(plan):
    """Filter directly over a Right Join, the predicate mentioning one column name under two qualifiers (a1.c2 .. a2.c2)"""
    if not plan:
        return False
    import re
    ls = plan.split("\n")
    for i in range(len(ls) - 1):
        a, b = ls[i].lstrip(), ls[i + 1].lstrip()
        if a.startswith("Filter:") and b.startswith("Right Join:"):
            by_name = {}
            for q_, n_ in re.findall(r"\b(\w+)\.(\w+)\b", a):
                by_name.setdefault(n_, set()).add(q_)
            if any(len(v) > 1 for v in by_name.values()):
                return True
    return False


def structural_class(c, g):
    """classes of known engine defects recognised by the shape of the input (no precise rewriting is available)"""
    if set(g["rs"]) <= {"without:push_down_filter"} and stacked_filters_dup_names(g.get("plan")):
        return KF9
    if filter_over_right_join_same_names(g.get("plan")):
        return "C03-via-C01-KF5"
    if has_node(c["q"], lambda n: n and n[0] == "insub" and n[1] is True and _corr(n[3])):
        return KF8
    return None


NOT_EXECUTABLE = ("This feature is not implemented", "not implemented", "NotImplemented", "not supported", "Unsupported", "unsupported",
                  "only supports", "should have been simplified", "should be replaced")


def err_class(e):
    for m in NOT_EXECUTABLE:
        if m in e:
            return "not-executable"
    return e.replace("\n", " ")[:110]


def run(pid, tier, seed, replay):
    ck = Check(pid, tier, seed, level="proof")
    n = 286 if tier == "quick" else 6600
    ck.proof_step(extra_targets=["Model/RefSQL.vo", "Proofs/RefSQLLaws.vo", "Model/RewriteRules.vo", "Proofs/RewriteRulesProofs.vo"])
    ok, out, dt = vlib.cargo_build("h_core", bin="c03")
    ck.log("cargo build: ok=%s (%.0fs)" % (ok, dt))
    if not ok:
        ck.problem("tie", "harness build failed:\n" + out[-3000:])
        return ck.finish()
    rc, so, se, dt = vlib.run_bin("c03", ["--seed", seed, "--n", n], timeout=3000)
    cases = vlib.jsonl(so)
    if rc != 0:
        ck.problem("tie", "harness ended abnormally rc=%d: %s" % (rc, se[-1500:]))
    if not cases:
        return ck.finish()
    ck.log("harness: %d queries, %d rule-set variants executed (%.1fs)" % (len(cases), sum(c.get("nvariants", 0) for c in cases), dt))

    def brief(c, extra=None):
        b = {"id": c["id"], "stream": c["stream"], "seed": seed, "target_partitions": c["tp"], "batch_size": c["bs"], "sql": c["sql"],
             "tables": [{"types": t["types"], "partitions": t["parts"], "rows": t["rows"]} for t in c["tables"]],
             "baseline_rule_set": c.get("base"), "query_json": c["q"]}
        if extra:
            b.update(extra)
        return b

    # ---- reference verdict for every distinct output of every case
    items = []          # (case index, group index)
    terms = []
    n_plan_err, plan_err_msgs, other_errs = 0, {}, {}
    seen_out, alias, n_panics = {}, {}, {}
    for ci, c in enumerate(cases):
        if "panic" in c:
            ck.fail_input("engine panicked: " + c["panic"][:300], brief(c))
            continue
        if "plan_err" in c:
            n_plan_err += 1
            m = c["plan_err"][:100]
            plan_err_msgs[m] = plan_err_msgs.get(m, 0) + 1
            if not unsupported(c["plan_err"]):
                ck.problem("tie", "generated SQL rejected by the planner: %s | %s" % (c["plan_err"][:300], c["sql"][:500]))
            continue
        for gi, g in enumerate(c["groups"]):
            if "rows" in g["out"]:
                # outputs of one query that are the same bag are one reference question (except under a top-level ORDER BY)
                rows = g["out"]["rows"]
                ck_ = (ci, json.dumps(rows if c["mode"].startswith("ordered") else sorted(json.dumps(r) for r in rows)))
                if ck_ in seen_out:
                    alias[(ci, gi)] = seen_out[ck_]
                    continue
                seen_out[ck_] = (ci, gi)
                items.append((ci, gi))
                terms.append(r_case(c, rows))
            elif g["out"]["err"].startswith("timeout:"):
                n_panics["timeout"] = n_panics.get("timeout", 0) + 1
                ck.fail_input("plan did not finish under optimizer rule sets %s: %s" % (g["rs"][:4], g["out"]["err"][:200]),
                              brief(c, {"rule_sets": g["rs"], "plan": g.get("plan")}), key="C03-via-C01-KF6")
            elif g["out"]["err"].startswith("panic:"):
                msg = g["out"]["err"]
                key = KF7 if "k > 0" in msg else None
                n_panics[key or "other"] = n_panics.get(key or "other", 0) + 1
                ck.fail_input("engine panicked under optimizer rule sets %s: %s" % (g["rs"][:4], msg[:200]),
                              brief(c, {"rule_sets": g["rs"], "plan": g.get("plan")}), key=key)
            else:
                k = err_class(g["out"]["err"])
                if k != "not-executable":
                    other_errs[k] = other_errs.get(k, 0) + len(g["rs"])
    shard = 40
    # pass 1: which outputs are NOT plainly an answer of the reference; pass 2 (on those only): run-time error vs disagreement
    agree_bad, log2, dt2 = vlib.coq_eval_cases(PRE, "c03_case", "c03_agree", terms, shard=shard, tag="c03a")
    if any(not isinstance(b, int) for b in agree_bad):
        ck.problem("tie", "evaluation of the reference in coqc failed:\n" + log2[-3000:])
    agree_bad = sorted(b for b in agree_bad if isinstance(b, int))
    bad, dt1 = [], 0.0
    if agree_bad:
        sub, log, dt1 = vlib.coq_eval_cases(PRE, "c03_case", "c03_check", [terms[i] for i in agree_bad], shard=shard, tag="c03")
        if any(not isinstance(b, int) for b in sub):
            ck.problem("tie", "evaluation of the reference in coqc failed:\n" + log[-3000:])
        bad = [agree_bad[b] for b in sub if isinstance(b, int)]
    agree_bad = set(agree_bad)
    wf_bad = set()
    if bad:
        sub, log3, _ = vlib.coq_eval_cases(PRE, "c03_case", "c03_wellformed", [terms[i] for i in bad], shard=shard, tag="c03w")
        if any(not isinstance(b, int) for b in sub):
            ck.problem("tie", "evaluation of the reference in coqc failed:\n" + log3[-3000:])
        wf_bad = {bad[b] for b in sub if isinstance(b, int)}
    for i in sorted(wf_bad)[:5]:
        ck.problem("tie", "reference term ill-formed (type/scope/fuel) -- generator or renderer defect: %s" % json.dumps(brief(cases[items[i][0]]))[:1500])
    dis = [i for i in bad if i not in wf_bad]                      # outputs that are not an answer of the reference
    ref_err = {i for i in agree_bad if i not in set(bad)}          # reference run-time error: not compared
    # ---- explanations by known deviations
    cand = []
    for j, i in enumerate(dis):
        ci, gi = items[i]
        c = cases[ci]
        for key, q2 in explanations(c):
            cand.append((j, key, "C03Case %s %s %s" % (r_db(c["tables"]), r_query(q2), r_rel(c["groups"][gi]["out"]["rows"]))))
    explained = {}
    if cand:
        cbad, log4, _ = vlib.coq_eval_cases(PRE, "c03_case", "c03_agree", [t for _, _, t in cand], shard=shard, tag="c03k")
        if any(not isinstance(b, int) for b in cbad):
            ck.problem("tie", "evaluation of the known-deviation variants in coqc failed:\n" + log4[-3000:])
        cbad = set(cbad)
        for n_, (j, key, _) in enumerate(cand):
            if n_ not in cbad and j not in explained:
                explained[j] = key
    status = {}          # (ci, gi) -> "agree" | "referr" | "illformed" | ("dis", key or None)
    for i, it in enumerate(items):
        status[it] = "illformed" if i in wf_bad else "referr" if i in ref_err else "agree"
    for j, i in enumerate(dis):
        status[items[i]] = ("dis", explained.get(j))
    for it, rep in alias.items():
        status[it] = status[rep]

    # ---- verdict per case
    n_known, n_new, n_c01_only, n_compared, n_pair_ok = {}, 0, 0, 0, 0
    per_stream, nt, cons, plans_total, variants_total, exec_variants = {}, set(), {}, 0, 0, 0
    rule_changed = {}
    for ci, c in enumerate(cases):
        if "groups" not in c:
            continue
        plans_total += c["nplans"]
        variants_total += c["nvariants"]
        base = c["base"]
        gbase = next((gi for gi, g in enumerate(c["groups"]) if base in g["rs"]), None)
        rows_groups = [gi for gi, g in enumerate(c["groups"]) if "rows" in g["out"]]
        exec_variants += sum(len(c["groups"][gi]["rs"]) for gi in rows_groups)
        reported = False
        for gi in rows_groups:
            st = status.get((ci, gi))
            g = c["groups"][gi]
            if not isinstance(st, tuple):
                continue
            key = st[1]
            same_as_unoptimised = (base == "none" and gi == gbase)
            if key == "not-optimizer":
                n_c01_only += 1
                continue
            if same_as_unoptimised:
                # the UNOPTIMISED plan itself deviates from the reference: not an optimizer matter (C01's territory)
                n_c01_only += 1
                if key is None:
                    ck.fail_input("the unoptimised plan's rows differ from the reference SQL semantics (not caused by the optimizer)",
                                  brief(c, {"rule_sets": g["rs"][:6], "rows": g["out"]["rows"]}), key="C03-unoptimised-plan-differs-from-reference")
                continue
            if key is None:
                key = structural_class(c, g)
            what = ("rows returned under optimizer rule sets %s differ from the reference SQL semantics" % (g["rs"][:4],))
            bst = status.get((ci, gbase)) if gbase is not None else None
            extra = {"rule_sets_B": g["rs"], "rows_B": g["out"]["rows"], "plan_B": g.get("plan"),
                     "rule_set_A": base, "rows_A": c["groups"][gbase]["out"].get("rows") if gbase is not None else None,
                     "baseline_agrees_with_reference": bst == "agree"}
            if key:
                n_known[key] = n_known.get(key, 0) + 1
            else:
                n_new += 1
            ck.fail_input(what, brief(c, extra), key=key)
            reported = True
        # pairwise differences found by the direct oracle that the reference did not already classify
        for d in c["diffs"]:
            gb = next((gi for gi, g in enumerate(c["groups"]) if d["b"][0] in g["rs"]), None)
            stb = status.get((ci, gb))
            sta = status.get((ci, gbase))
            if isinstance(stb, tuple) or isinstance(sta, tuple):
                if isinstance(sta, tuple) and not isinstance(stb, tuple) and base == "none":
                    pass      # the unoptimised plan deviates (reported above / C01), the optimised variant is right
                continue
            if stb == "agree" and sta == "agree":
                ck.problem("tie", "direct oracle and reference disagree: variants %s vs %s differ (%s) but both are answers of the reference: %s"
                           % (d["a"], d["b"][:3], d["what"], json.dumps(brief(c))[:1200]))
                continue
            n_new += 1
            ck.fail_input("rows differ between optimizer rule sets: " + d["what"],
                          brief(c, {"rule_set_A": d["a"], "rule_sets_B": d["b"], "rows_A": d["rows_a"], "rows_B": d["rows_b"], "plan_B": d["plan_b"]}))
            reported = True
        for sb in c["schema_bad"]:
            n_new += 1
            ck.fail_input("output schema (%s) of the optimised plan differs from the original in names / logical types" % sb["kind"],
                          brief(c, {"rule_set": sb["rs"], "schema_original": c["schema"], "schema_got": sb["got"]}))
            reported = True
        if not c["ok"] and not reported and not any(isinstance(status.get((ci, gi)), tuple) for gi in rows_groups):
            ck.problem("tie", "harness reported ok=false but no difference was classified: %s" % json.dumps(brief(c))[:1200])
        if rows_groups and all(status.get((ci, gi)) == "agree" for gi in rows_groups):
            n_compared += 1
            per_stream[c["stream"]] = per_stream.get(c["stream"], 0) + 1
            constructs(c["q"], cons)
            if any(c["groups"][gi]["out"]["rows"] for gi in rows_groups) and c["nplans"] > 1:
                nt.add(vlib.case_hash([c["q"], [t["rows"] for t in c["tables"]]]))
    ck.log("reference (Coq): %d distinct outputs of %d queries; %d queries with every executable variant agreeing; new failures %d; known %s; "
           "unoptimised-plan deviations (C01 territory) %d; reference run-time errors %d (%.1fs)"
           % (len(terms), len(cases), n_compared, n_new, n_known, n_c01_only, len(ref_err), dt1 + dt2))
    rules = sorted({r.split(":", 1)[1] for c in cases if "groups" in c for g in c["groups"] for r in g["rs"] if r.startswith("only:")})
    ck.coverage.update({
        "evaluations": variants_total,
        "distinct_nontrivial": len(nt),
        "rule": "one generated query per case (C01 generator's 19 streams + c03_outer / c03_empty / c03_limit, round-robin, preceded by 9 fixed witnesses) "
                "over 1..3 tables (0..8 rows, nullable BIGINT/VARCHAR/BOOLEAN, ~25%% NULLs), MemTables with 1..3 partitions, target_partitions 1..3; "
                "each analysed plan optimised + executed under none / all / only:<rule> / without:<rule> for the %d rules of Optimizer::new(); "
                "non-trivial = every executable variant agrees with the reference, some variant returned a row, more than one distinct optimised plan, "
                "distinct (query, tables)" % len(rules),
        "queries": len(cases),
        "rule_set_variants": variants_total,
        "rule_set_variants_executed_ok": exec_variants,
        "distinct_optimised_plans_executed": plans_total,
        "optimizer_rules": rules,
        "queries_all_variants_agree_with_reference": n_compared,
        "agreeing_per_stream": per_stream,
        "construct_occurrences_in_agreeing_queries": cons,
        "reference_runtime_error_not_compared": len(ref_err),
        "sql_rejected_by_planner": n_plan_err,
        "sql_rejected_messages": plan_err_msgs,
        "variant_errors_other_than_not_executable": other_errs,
        "unoptimised_plan_deviations_not_attributed_to_optimizer": n_c01_only,
        "failures_explained_by_known_findings": n_known,
        "new_failures": n_new,
        "variant_panics": n_panics,
        "traces_validated_against_impl": len(terms),
        "samples": [{"sql": c["sql"], "tables": [t["rows"] for t in c["tables"]], "nplans": c["nplans"],
                     "groups": [{"rule_sets": len(g["rs"]), "out": g["out"] if "rows" in g["out"] else {"err": g["out"]["err"][:100]}} for g in c["groups"]]}
                    for c in cases[5:7] if "groups" in c],
        "trusted_base": vlib.TRUSTED_COMMON + [
            "the rewrite patterns and side conditions in Model/RewriteRules.v / Proofs/RewriteRulesProofs.v are transcribed BY HAND from the Rust rules; "
            "the Rust rules are not translated -- they are tied only by differential execution under all single-rule / leave-one-out rule sets",
            "the two renderers of the query AST (harness/h_core/src/refsql_gen.rs: SQL text, JSON) and lib/props/C01.py (JSON to Coq term) denote the same query",
            "identical optimised logical plans (LogicalPlan ==) are executed once; physical planning + physical optimizer are the engine's defaults",
            "avg: Float64 results are mapped to the unique nearby small rational (C01)",
        ],
    })
    ck.assumptions = [
        "pattern soundness theorems are about the reference algebra (Model/RefSQL.v combinators) and about the patterns as transcribed by hand; "
        "error behaviour (a rewrite may change WHICH rows an erroring expression is evaluated on) is outside the theorems -- the property only speaks of "
        "plans that can both be executed",
        "a rule set whose plan cannot be executed (subqueries / DISTINCT / COALESCE need decorrelation / replace_distinct_aggregate / simplify_expressions) "
        "is skipped; other errors of a variant are counted in coverage.variant_errors_other_than_not_executable, not failed",
        "fragment and generator: as C01 (no window functions, recursive CTEs, GROUPING SETS, LIKE, decimals, temporal types)",
    ]
    return ck.finish()
