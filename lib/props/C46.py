"""C46 -- benchmark result validation accepts exactly the persisted results; placeholder precedence.  Tie: X."""
import vlib
from vlib import Check, zlit


def txt(s):
    return "[" + "; ".join(str(b) for b in s.encode("utf-8")) + "]"


def r_row(r):
    return "[" + "; ".join(txt(c) for c in r) + "]"


def r_rows(rs):
    return "[" + "; ".join(r_row(r) for r in rs) + "]"


def r_cell(c):
    return "None" if c is None else "(Some %s)" % txt(c)


def r_crows(rs):
    return "[" + "; ".join("[" + "; ".join(r_cell(c) for c in r) + "]" for r in rs) + "]"


def r_assoc(m):
    return "[" + "; ".join("(%s, %s)" % (txt(k), txt(v)) for k, v in m) + "]"


def r_verdict(v):
    k = v["v"]
    if k == "accept":
        return "Accept"
    if k == "rows":
        return "(RowCount %s %s)" % (zlit(v["exp"]), zlit(v["got"]))
    if k == "cols":
        return "(ColCount %s %s)" % (zlit(v["exp"]), zlit(v["got"]))
    if k == "cell":
        return "(CellDiff %s %s)" % (zlit(v["row"]), zlit(v["col"]))
    return "ReadError"          # any other error text: the model may only agree if it could not read the file


def r_parsed(p):
    if "cc" in p:
        return "(Some (%s, %s))" % (zlit(p["cc"]), r_rows(p["rows"]))
    return "None"


def r_res(o):
    if "ok" in o:
        return "(Ok %s)" % txt(o["ok"])
    if "missing" in o:
        return "(MissingKey %s)" % txt(o["missing"])
    return None


def render(c):
    """one harness line -> list of (coq term, label)"""
    k = c["k"]
    out = []
    if k == "cmp":
        out.append(("CCmp %s %s %s %s" % (zlit(c["cc"]), r_rows(c["act"]), r_rows(c["exp"]), r_verdict(c["verdict"])), "cmp"))
    elif k == "rt" and "file" in c:
        hdr = r_row(c["hdr"])
        out.append(("CPersist %s %s %s" % (hdr, r_crows(c["rows"]), txt(c["file"])), "persist"))
        out.append(("CParse %s %s" % (txt(c["file"]), r_parsed(c["parsed"])), "reread"))
        out.append(("CVerify %s %s %s %s" % (hdr, r_crows(c["rows"]), r_crows(c["rows"]), r_verdict(c["v0"])), "verify-own"))
        out.append(("CVerify %s %s %s %s" % (hdr, r_crows(c["rows"]), r_crows(c["mutated"]), r_verdict(c["v1"])), "verify-mutated"))
    elif k == "raw" and "panic" not in c["parsed"]:
        out.append(("CParse %s %s" % (txt(c["file"]), r_parsed(c["parsed"])), "raw"))
    elif k == "ph":
        r = r_res(c["out"])
        if r is not None:
            out.append(("CPh %s %s %s %s" % (r_assoc(c["map"]), r_assoc(c["env"]), txt(c["input"]), r), "ph"))
    return out


def run(pid, tier, seed, replay):
    ck = Check(pid, tier, seed, level="proof")
    n = 2000 if tier == "quick" else 40000
    ck.proof_step(extra_targets=["Model/BenchVerify.vo"])
    ok, out, dt = vlib.cargo_build("h_bench", bin="c46")
    ck.log("cargo build: ok=%s (%.0fs)" % (ok, dt))
    if not ok:
        ck.problem("tie", "harness build failed:\n" + out[-3000:])
        return ck.finish()
    rc, so, se, dt = vlib.run_bin("c46", ["--seed", seed, "--n", n])
    cases = vlib.jsonl(so)
    if rc != 0:
        ck.problem("tie", "harness ended abnormally rc=%d: %s" % (rc, se[-1500:]))
    if not cases:
        return ck.finish()
    kinds = {}
    for c in cases:
        kinds[c["k"]] = kinds.get(c["k"], 0) + 1
        if c["ok"]:
            continue
        if c["k"] == "cmp":
            ck.fail_input("compare_results %s a result that %s (column_count %d): verdict %s"
                          % ("accepted" if c["verdict"]["v"] == "accept" else "rejected",
                             "differs" if not c["should_accept"] else "is equivalent cell by cell", c["cc"], c["verdict"]),
                          {"column_count": c["cc"], "actual": c["act"], "expected": c["exp"]})
        elif c["k"] == "rt":
            ck.fail_input("persist/verify: " + c.get("why", ""),
                          {"header": c["hdr"], "persisted_rows": c["rows"], "verified_rows": c["mutated"], "file": c.get("file"),
                           "verify_own": c.get("v0"), "verify_mutated": c.get("v1"), "error": c.get("error")})
        elif c["k"] == "raw":
            ck.fail_input("read_query_from_file panicked", {"file": c["file"]})
        else:
            ck.fail_input("process_replacements_with_env returned %s, expected %s" % (c["out"], c["want"]),
                          {"input": c["input"], "map": c["map"], "env": c["env"]})
    ck.log("harness: %s (%.1fs)" % (kinds, dt))
    # correspondence: every observed verdict / written file / re-read table / processed text == the model's
    terms, origin = [], []
    for i, c in enumerate(cases):
        for t, label in render(c):
            terms.append(t)
            origin.append((i, label))
    unparsed = [c for c in cases if (c["k"] == "ph" and r_res(c["out"]) is None)
                or (c["k"] == "cmp" and c["verdict"]["v"] in ("other", "panic"))
                or (c["k"] == "rt" and "file" not in c)]
    if unparsed:
        ck.problem("tie", "%d implementation outcomes outside the model's vocabulary; first: %s" % (len(unparsed), str(unparsed[0])[:1200]))
    pre = "From DF Require Import Base.Prelude Model.BenchVerify.\nOpen Scope Z_scope."
    bad, log, dt = vlib.coq_eval_cases(pre, "c46_case", "c46_check", terms, shard=250, tag="c46")
    ck.log("correspondence: %d model evaluations, %d disagreements (%.1fs)" % (len(terms), len(bad), dt))
    if bad:
        first = bad[0]
        if isinstance(first, int):
            i, label = origin[first]
            ck.problem("tie", "model and implementation disagree on %d evaluations; first (%s): %s"
                       % (len(bad), label, str(cases[i])[:1500]))
        else:
            ck.problem("tie", "model evaluation failed: %s" % log[-1500:])
    labels = {}
    for _, l in origin:
        labels[l] = labels.get(l, 0) + 1
    special = set('|"\n\r')
    nt = set()
    for c in cases:
        if c["k"] == "cmp" and c["mutation"] != "none" and (c["act"] or c["exp"]):
            nt.add(vlib.case_hash([c["cc"], c["act"], c["exp"]]))
        elif c["k"] == "rt" and "file" in c and any(cell is None or cell == "" or (set(cell) & special) for r in c["rows"] for cell in r):
            nt.add(vlib.case_hash([c["rows"], c["mutated"]]))
        elif c["k"] == "ph" and "${" in c["input"]:
            nt.add(vlib.case_hash([c["input"], c["map"], c["env"]]))
    verdicts = {}
    for c in cases:
        if c["k"] == "cmp":
            verdicts[c["verdict"]["v"]] = verdicts.get(c["verdict"]["v"], 0) + 1
    rts = [c for c in cases if c["k"] == "rt" and "file" in c]
    ck.coverage.update({
        "evaluations": len(cases),
        "distinct_nontrivial": len(nt),
        "rule": "cmp: 0..5 rows x 0..4 columns of cells from a 41-word alphabet ('', NULL, null, (empty), blanks, tabs, '|', quotes, CR/LF, "
                "1 vs 1.0 vs 01, non-ASCII, NULLABLE, ...) and concatenations; expected = actual after one mutation (cell changed, NULL/(empty) marker "
                "against ''/NULL/other, row added/removed, cell added/removed in a row, column_count != width, independent table, two cells); "
                "rt: 0..5 rows x 1..4 Utf8 columns (1/6 NULL) run through SqlBenchmark::run/persist on a temp benchmark file, the written file re-read "
                "with read_query_from_file, verified unchanged and after one mutation (cell, row added/removed, column added/removed); "
                "raw: header + up to 12 random CSV fragments (quotes, delimiters, CR, LF, CRLF); ph: texts of up to 5 pieces (safe literals, ${K}, ${K:-d}, "
                "${K|t|f}, ${K:-d|t|f}, nested ${V} in the true branch; 1/3 of the texts mixed with syntax noise) x random map (case-varied keys) x env; "
                "non-trivial = cmp with a mutation / rt whose table has a NULL, an empty string or a cell needing CSV quoting / ph containing '${'",
        "case_kinds": kinds,
        "model_evaluations": labels,
        "cmp_verdicts": verdicts,
        "rt_mutated_accepted": sum(1 for c in rts if c["v1"]["v"] == "accept" and c["mutation"] != "none"),
        "rt_mutated_rejected": sum(1 for c in rts if c["v1"]["v"] != "accept"),
        "traces_validated_against_impl": len(terms),
        "samples": [next((c for c in cases if c["k"] == "rt" and "file" in c and c["mutation"] == "one cell changed"), None),
                    next((c for c in cases if c["k"] == "ph" and c["structured"] and "|" in c["input"]), None)],
        "trusted_base": vlib.TRUSTED_COMMON + [
            "arrow-csv / csv-core / DataFusion CSV sink and scan are modelled by hand (writer quoting rule, reader automaton, empty field = NULL) and tied by "
            "byte-exact comparison of the written file and of the re-read table on every generated case",
            "regex crate semantics of the two placeholder patterns are modelled by hand (greedy classes followed by a byte outside the class) and tied on every case; "
            "\\w is modelled for ASCII (generated texts contain no non-ASCII word characters)",
            "only Utf8 columns are generated (other column types differ in ArrayFormatter text only)"],
    })
    ck.assumptions = ["result tables of Utf8 columns with at least one column; a single result file written by one partition (small results)",
                      "placeholder theorems are stated for one placeholder between '$'-free texts, keys of ASCII word bytes, defaults/branches without '$', '|', '}'"]
    return ck.finish()
