"""C42 -- tree traversal and rewriting follow their recursion contract.  Tie: X (exact log/result comparison)."""
import os
import vlib
from vlib import Check, zlit, coq_bool

TN = {"C": "Continue", "J": "Jump", "S": "Stop"}
IM = {"vec": "IVec", "concrete": "IConcrete", "dyn": "IDyn"}   # "expr"/"tuple" are rendered as gtree
F1 = ("C42-F1 TreeNodeContainer tuples (common/src/tree_node.rs): a Jump returned by the callback on the last real child "
      "is reset to Continue when only EMPTY sibling containers follow it (Option::None / empty Vec answer Ok(Continue) / "
      "Transformed::no, and visit_sibling/transform_sibling let that override the Jump). Seen on real Expr trees: "
      "CASE WHEN a THEN b END without ELSE (also x IN () and any node whose last container is empty) with f_up(b) = Jump: "
      "f_up(CASE) is still invoked and the walk ends with Continue, although TreeNodeRecursion::Jump documents that the "
      "parents' f_up is bypassed; apply_children/map_children report Continue instead of the last callback's Jump")


def groups_ok(gs):
    """no non-empty container is followed only by empty ones (Model.TreeNode.groups_ok)"""
    return not any(g and i + 1 < len(gs) and all(len(x) == 0 for x in gs[i + 1:]) for i, g in enumerate(gs))


def well_grouped(t, grp=None):
    grp = grp or groups
    return groups_ok(grp(t[0], t[1])) and all(well_grouped(c, grp) for c in t[1])

METH = {"down": "MDown", "up": "MUp", "up_syn": "MUp", "down_up": "MDownUp", "rewrite": "MRewrite",
        "map_children": "MMapChildren"}


def tree(t):
    return "(Node %s [%s])" % (zlit(t[0]), "; ".join(tree(c) for c in t[1]))


def groups(l, cs):
    """the sibling containers impl TreeNode for Expr keeps the children of this variant in (see c42e.rs)"""
    if not cs and l < 400:
        return []
    if 100 <= l <= 109 or l in (410, 411):
        return [cs]
    if 200 <= l <= 243 or 300 <= l <= 301:
        return [[c] for c in cs]
    if l in (400, 401):
        return [[cs[0]], cs[1:]]
    if l == 420:
        return [cs[i:i + 2] for i in range(0, len(cs), 2)]
    if 500 <= l <= 503:
        he, hl = (l - 500) & 1, ((l - 500) >> 1) & 1
        mid = cs[he:len(cs) - hl]
        return [cs[:he]] + [[c] for c in mid] + [cs[len(cs) - hl:] if hl else []]
    raise ValueError((l, cs))


def groups_tuple(l, cs):
    """the (Option<Box>, Vec, Option<Box>) containers of the harness' TNode (see c42.rs TNode::build)"""
    cs = list(cs)
    first = [cs.pop(0)] if l % 2 == 1 and cs else []
    last = [cs.pop()] if l % 4 != 0 and cs else []
    return [first, cs, last]


GROUPING = {"expr": groups, "tuple": groups_tuple}


def gtree(t, grp=groups):
    return "(GNode %s [%s])" % (zlit(t[0]), "; ".join("[%s]" % "; ".join(gtree(c, grp) for c in g) for g in grp(t[0], t[1])))


def log(l):
    return "[" + "; ".join("(%s, %s)" % ("PDown" if p == "d" else "PUp", zlit(x)) for p, x in l) + "]"


def vtab(t):
    return "[" + "; ".join("(%s, %s)" % (zlit(k), TN[d]) for k, d in t) + "]"


def rtab(t):
    return "[" + "; ".join("(%s, (%s, %s, %s))" % (zlit(k), zlit(v[0]), coq_bool(v[1]), TN[v[2]]) for k, v in t) + "]"


def render(c):
    k = c["k"]
    if c["im"] in GROUPING:
        t = gtree(c["t"], GROUPING[c["im"]])
        if k == "apply":
            return "GApply %s %s %s %s" % (t, vtab(c["tab"]), log(c["log"]), TN[c["res"]])
        if k == "apply_children":
            return "GApplyChildren %s %s %s %s" % (t, vtab(c["tab"]), log(c["log"]), TN[c["res"]])
        if k == "exists":
            return "GExists %s [%s] %s %s" % (t, "; ".join(zlit(h) for h in c["hits"]), log(c["log"]), coq_bool(c["res"]))
        if k == "visit":
            return "GVisit %s %s %s %s %s" % (t, vtab(c["dtab"]), vtab(c["utab"]), log(c["log"]), TN[c["res"]])
        return "GTrans %s %s %s %s %s %s %s %s" % (
            METH[c["m"]], t, rtab(c["dtab"]), rtab(c["utab"]), log(c["log"]), tree(c["out"]), coq_bool(c["flag"]), TN[c["res"]])
    if k == "apply":
        return "CApply %s %s %s %s" % (tree(c["t"]), vtab(c["tab"]), log(c["log"]), TN[c["res"]])
    if k == "apply_children":
        return "CApplyChildren %s %s %s %s" % (tree(c["t"]), vtab(c["tab"]), log(c["log"]), TN[c["res"]])
    if k == "exists":
        return "CExists %s [%s] %s %s" % (tree(c["t"]), "; ".join(zlit(h) for h in c["hits"]), log(c["log"]),
                                         coq_bool(c["res"]))
    if k == "visit":
        return "CVisit %s %s %s %s %s" % (tree(c["t"]), vtab(c["dtab"]), vtab(c["utab"]), log(c["log"]), TN[c["res"]])
    if k == "trans":
        return "CTrans %s %s %s %s %s %s %s %s %s" % (
            METH[c["m"]], IM[c["im"]], tree(c["t"]), rtab(c["dtab"]), rtab(c["utab"]), log(c["log"]),
            tree(c["out"]), coq_bool(c["flag"]), TN[c["res"]])
    raise ValueError(c)


def tsize(t):
    return 1 + sum(tsize(c) for c in t[1])


def nontrivial(c):
    """a case is non-trivial when some callback steered the traversal (a Jump or Stop was actually
    returned by an invoked callback, or the exists predicate hit) or some label was replaced"""
    if c.get("panic"):
        return True
    k = c["k"]
    if k == "exists":
        return bool(c["res"])
    if k in ("apply", "apply_children"):
        d = dict((a, b) for a, b in c["tab"])
        return any(d.get(x, "C") != "C" for _, x in c["log"])
    if k == "visit":
        dd = dict((a, b) for a, b in c["dtab"])
        du = dict((a, b) for a, b in c["utab"])
        return any((dd if p == "d" else du).get(x, "C") != "C" for p, x in c["log"])
    dd = dict((a, b) for a, b in c["dtab"])
    du = dict((a, b) for a, b in c["utab"])
    steer = any(((dd if p == "d" else du).get(x) or [x, False, "C"])[2] != "C" for p, x in c["log"])
    return steer or c["out"] != c["t"]


def describe(c):
    k = c["k"]
    name = {"trans": c.get("m")}.get(k, k)
    return "%s on %s tree %s with tables %s: log=%s%s result=%s" % (
        name, c["im"], c["t"], {x: c[x] for x in ("tab", "dtab", "utab", "hits") if x in c},
        c.get("log"), " out=%s flag=%s" % (c.get("out"), c.get("flag")) if k == "trans" else "", c.get("res"))


def eval_cases(preamble, case_terms, shard=800, sub=8, timeout=900, tag="c42"):
    """vlib.coq_eval_cases with one twist: coqc's front end is super-linear in the length of a single
    command, so every shard is written as many small list definitions that are appended.
    Returns (bad_indices, log, wall) exactly like vlib.coq_eval_cases."""
    import re
    import time
    from concurrent.futures import ThreadPoolExecutor
    d = os.path.join(vlib.BUILD, "cases")
    os.makedirs(d, exist_ok=True)
    shards = [case_terms[i:i + shard] for i in range(0, len(case_terms), shard)]
    t0 = time.time()

    def one(k):
        path = os.path.join(d, "%s_%d.v" % (tag, k))
        names = []
        with open(path, "w") as f:
            f.write(preamble + "\n")
            for j in range(0, len(shards[k]), sub):
                names.append("cs%d" % (j // sub))
                f.write("Definition %s : list c42_case := [\n%s\n].\n" % (names[-1], ";\n".join(shards[k][j:j + sub])))
            f.write("Definition cases : list c42_case := concat [%s].\n" % "; ".join(names))
            f.write("Definition bad := bad_idx c42_check cases.\n")
            f.write("Eval vm_compute in (Z.of_nat (length cases), bad).\n")
        rc, out, _ = vlib.sh(["coqc", "-noglob", "-Q", vlib.COQ, "DF", "-o", path + "o", path], cwd=vlib.COQ, timeout=timeout)
        if rc != 0:
            return k, None, out
        flat = " ".join(out.split())
        m = re.search(r"= \((\d+)(?:%Z)?, (\[.*?\]|nil)(?:%list)?\)", flat)
        if not m or int(m.group(1)) != len(shards[k]):
            return k, None, "unexpected coqc output / case count mismatch\n" + out
        body = m.group(2)
        return k, ([] if body == "nil" else [int(x) for x in re.findall(r"-?\d+", body)]), out

    bad, logs = [], []
    with ThreadPoolExecutor(max_workers=16) as ex:
        for k, idx, out in ex.map(one, range(len(shards))):
            if idx is None:
                logs.append("shard %d failed:\n%s" % (k, out[-3000:]))
                bad.append(("shard-error", k))
            else:
                bad += [k * shard + i for i in idx]
    return bad, "\n".join(logs), time.time() - t0


def run(pid, tier, seed, replay):
    ck = Check(pid, tier, seed, level="proof")
    n = 400 if tier == "quick" else 12000
    proof_ok = ck.proof_step(extra_targets=["Model/TreeNode.vo"])
    ok, out, dt = vlib.cargo_build("h_common", bin="c42")
    ck.log("cargo build h_common c42: ok=%s (%.0fs)" % (ok, dt))
    if not ok:
        ck.problem("tie", "harness build failed:\n" + out[-3000:])
        return ck.finish()
    rc, so, se, dt = vlib.run_bin("c42", ["--seed", seed, "--n", n])
    cases = vlib.jsonl(so)
    ck.log("harness: %d cases (%.1fs)" % (len(cases), dt))
    if rc != 0:
        ck.problem("tie", "harness run ended abnormally rc=%d: %s" % (rc, se[-1500:]))
    # ---- the same checks driven through the real impl TreeNode for Expr
    ecases = []
    skip_expr = os.environ.get("VERIF_C42_SKIP_EXPR") == "1"   # development knob (mutation testing); never set by ./check
    if skip_expr:
        ck.notes.append("VERIF_C42_SKIP_EXPR=1: Expr harness skipped")
        ok, out, dt = True, "", 0.0
    else:
        ok, out, dt = vlib.cargo_build("h_expr", bin="c42e")
    ck.log("cargo build h_expr c42e: ok=%s (%.0fs)" % (ok, dt))
    if skip_expr:
        pass
    elif not ok:
        ck.problem("tie", "Expr harness build failed:\n" + out[-3000:])
    else:
        rc, so, se, dt = vlib.run_bin("c42e", ["--seed", seed, "--n", 120 if tier == "quick" else 4000])
        ecases = vlib.jsonl(so)
        ck.log("Expr harness: %d cases (%.1fs)" % (len(ecases), dt))
        if rc != 0 or not ecases:
            ck.problem("tie", "Expr harness run ended abnormally rc=%d: %s" % (rc, se[-1500:]))
    cases += ecases
    # ---- LogicalPlan *_with_subqueries traversals (oracle only): inspecting and transforming traversals must
    # reach the same plan nodes for every kind of subquery expression
    pcases = []
    if not skip_expr:
        okp, outp, dtp = vlib.cargo_build("h_expr", bin="c42p")
        if not okp:
            ck.problem("tie", "plan-subquery harness build failed:\n" + outp[-3000:])
        else:
            rc, so, se, dtp = vlib.run_bin("c42p", ["--seed", seed, "--n", 200 if tier == "quick" else 3000])
            pcases = vlib.jsonl(so)
            ck.log("plan-subquery harness: %d cases (%.1fs)" % (len(pcases), dtp))
            if rc != 0 or not pcases:
                ck.problem("tie", "plan-subquery harness ended abnormally rc=%d: %s" % (rc, se[-1500:]))
            for c in pcases:
                if not c["ok"]:
                    ck.fail_input("LogicalPlan traversal with subqueries: " + c["why"], {"subquery_kinds": c["kinds"], "plan": c["plan"]})
    ck.coverage["plan_subquery_cases"] = len(pcases)
    if not cases:
        ck.problem("tie", "harness produced no cases")
        return ck.finish()
    # ---- correspondence: Coq model vs observation, exact (log, result tree, flag, final directive)
    disagree = set()
    corr = [c for c in cases if not c.get("panic")]
    if os.path.exists(os.path.join(vlib.COQ, "Model/TreeNode.vo")):
        pre = "From DF Require Import Base.Prelude Model.TreeNode.\nOpen Scope Z_scope."
        bad, lg, dt = eval_cases(pre, [render(c) for c in corr])
        ck.log("correspondence: %d cases, %d disagreements (%.1fs)" % (len(corr), len(bad), dt))
        if bad:
            first = bad[0]
            detail = describe(corr[first]) if isinstance(first, int) else lg
            ck.problem("tie", "Coq model and implementation disagree on %d case(s); first: %s" % (len(bad), str(detail)[:1200]))
            # a disagreement with the model the theorems are about is a concrete failing input
            for i in [b for b in bad if isinstance(b, int)]:
                disagree.add(id(corr[i]))
            for i in [b for b in bad if isinstance(b, int)][:5]:
                ck.fail_input("implementation differs from the Coq model: " + describe(corr[i])[:1200], corr[i])
    else:
        ck.problem("tie", "Model/TreeNode.vo missing: correspondence not evaluated")
    # ---- direct property oracle (the documented contract evaluated on the implementation's own output)
    kinds = {}
    f1_hits = []
    for c in cases:
        key = "%s/%s" % (c.get("m") or c["k"], c["im"])
        kinds[key] = kinds.get(key, 0) + 1
        if not c.get("ok", False):
            if id(c) in disagree:
                continue    # already reported above with its concrete input
            if c["im"] in GROUPING and not c.get("panic") and not well_grouped(c["t"], GROUPING[c["im"]]):
                # the documented contract is violated exactly in the way proved by
                # Props/C42.v C42_trailing_empty_container_refuted: the tree is not well grouped and the
                # observation equals the grouped-container model (correspondence above)
                f1_hits.append(c)
                if len(f1_hits) <= 3:
                    ck.fail_input(F1, c)
                continue
            what = ("PANIC in " if c.get("panic") else "recursion contract violated: ") + describe(c)
            ck.fail_input(what[:1500], c)
    nt = {vlib.case_hash({k: v for k, v in c.items()}) for c in cases if nontrivial(c)}
    sizes = [tsize(c["t"]) for c in cases]
    pick = [c for c in cases if c["k"] == "trans" and c["m"] == "rewrite" and tsize(c["t"]) >= 5 and nontrivial(c)]
    ck.coverage.update({
        "evaluations": len(cases),
        "distinct_nontrivial": len(nt),
        "rule": "exhaustive: every tree shape with <=4 nodes x every directive vector {Continue,Jump,Stop}^n for apply/apply_children "
                "(3 TreeNode impls), every (f_down,f_up) directive vector pair 9^n for <=3 nodes for visit and "
                "transform_down_up/rewrite, all 6 rewriting entry points x 3 impls; the crate's own 10-node test tree with a single "
                "Jump/Stop at every node and phase; random trees of 1..14 nodes (deep/wide/uniform, 1/5 with duplicate labels) x "
                "random decision tables (honest and dishonest `transformed` flags, label collisions); the same on real Expr trees (Literal, Not.., BinaryExpr, Like, Between, InList, GroupingSet, Case: every shape <=4 nodes + random <=12 nodes). non-trivial = some invoked "
                "callback returned Jump/Stop (or exists hit) or the output tree differs from the input; distinct by full case hash",
        "exhaustive": False,
        "case_kinds": kinds,
        "max_tree_nodes": max(sizes),
        "expr_cases": len(ecases),
        "expr_cases_not_well_grouped": sum(1 for c in ecases if not well_grouped(c["t"])),
        "tuple_container_cases": sum(1 for c in cases if c["im"] == "tuple"),
        "tuple_container_cases_not_well_grouped": sum(1 for c in cases if c["im"] == "tuple" and not well_grouped(c["t"], groups_tuple)),
        "finding_C42_F1_hits": len(f1_hits),
        "samples": [cases[0]] + pick[:2] + [c for c in cases if c["k"] == "visit" and tsize(c["t"]) >= 6][:1],
        "trusted_base": vlib.TRUSTED_COMMON + [
            "Model/TreeNode.v is a hand transcription of tree_node.rs (default methods, TreeNodeRecursion/Transformed combinators, "
            "apply_until_stop/map_until_stop_and_collect, Vec/Concrete/Dyn map_children); the `*_rust_eq` lemmas tie each Fixpoint to the "
            "literal Rust expression; the transcription is cross-checked against the real code on every case (exact log, tree, flag, tnr)",
            "Expr nodes are modelled as gtree (children grouped by the sibling containers of each variant; grouping table in "
            "lib/props/C42.py groups() mirrors expr/src/tree_node.rs), compared exactly with the real Expr on every case",
            "callbacks are modelled as functions of the node label (the harness interprets the same tables); callbacks that replace a "
            "node by one with different children, Err returns and recursive_protection are not modelled"],
    })
    ck.assumptions = ["callbacks return Ok and keep the children of the node they are given",
                      "LogicalPlan / Arc<dyn PhysicalExpr> / Arc<dyn ExecutionPlan> apply_children/map_children follow the container "
                      "semantics modelled (exercised: the three generic implementations in common/src/tree_node.rs and impl TreeNode for Expr)"]
    return ck.finish()
