"""C36 -- physical plans survive protobuf serialisation unchanged.  Tie: T (enum tables) + X."""
import json
import os
import re
import sys
import vlib
from vlib import Check

TRANSLATOR = "translators/rs_enummap2coq.py"
SETNAME, GEN, INFO = "physical", "Gen/ProtoEnumsPhys.v", "c36_info.json"

from props.protoenums_common import table_report, cs

KF_IGNORE_NULLS = "C36-window-udf-ignore-nulls-dropped"
KF_REORDER = "C36-parquet-source-sort-order-for-reorder-dropped"
KF_UNION = "C36-union-decode-inserts-coercion-projection"

COERCE_ITEM = re.compile(r"^(CAST\(\w+@\d+ AS [^@]+\) as \w+|\w+@\d+ as \w+)$")


def is_coercion(line):
    m = re.match(r"^( *)ProjectionExec: expr=\[(.*)\]$", line)
    return bool(m and "CAST(" in m.group(2) and all(COERCE_ITEM.match(x) for x in m.group(2).split(", ")))


def only_union_coercions_inserted(plan, back):
    """True iff `back` (decoded) is `plan` (original) with pure cast / pass-through ProjectionExecs inserted directly under UnionExec nodes"""
    ind = lambda l: len(l) - len(l.lstrip(" "))
    a = [l for l in plan.rstrip("\n").split("\n")]
    b = [l for l in back.rstrip("\n").split("\n")]
    i = j = 0
    inserted = 0
    while i < len(a) and j < len(b):
        if a[i] == b[j]:
            i += 1
            j += 1
            continue
        if not is_coercion(b[j]):
            return False
        def parent(x):
            k = x - 1
            while k >= 0 and ind(b[k]) >= ind(b[x]):
                k -= 1
            return k
        k = parent(j)
        while k >= 0 and is_coercion(b[k]):       # the inserted projection may sit above an identical original one
            k = parent(k)
        if k < 0 or b[k].strip() != "UnionExec":
            return False
        # drop the inserted line and dedent its subtree
        base = ind(b[j])
        del b[j]
        t = j
        while t < len(b) and ind(b[t]) > base:
            b[t] = b[t][2:]
            t += 1
        inserted += 1
    return inserted > 0 and i == len(a) and j == len(b)


def classify(c):
    """known-finding class of a failing case, or None"""
    why, plan = c.get("why") or "", c.get("plan") or ""
    if why.startswith("results differ") and "IGNORE NULLS" in plan and "WindowAggExec" in plan:
        return KF_IGNORE_NULLS
    if why.startswith("displayable().indent(true) differs") and c.get("diff"):
        f = lambda t: re.sub(r", reverse_row_groups=true", "", re.sub(r", sort_order_for_reorder=\[[^\]]*\]", "", t))
        if all(f(a) == f(b) for a, b in c["diff"]):
            return KF_REORDER
    if why.startswith("displayable().indent(true) differs after the round trip:\n") and "UnionExec" in plan and not c.get("diff") and not plan.endswith("..."):
        back = why.split("\n", 1)[1]
        if only_union_coercions_inserted(plan, back):
            return KF_UNION
    return None


def run(pid, tier, seed, replay):
    ck = Check(pid, tier, seed, level="proof")
    n = 24 if tier == "quick" else 400
    info_path = os.path.join(vlib.BUILD, INFO)
    # ---- T: regenerate the tables from the current source
    rc, out, _ = vlib.sh([sys.executable, os.path.join(vlib.VERIF, TRANSLATOR), vlib.REPO, os.path.join(vlib.COQ, GEN),
                          "--set", SETNAME, "--json", info_path])
    ck.log("translator: " + out.strip()[-300:])
    if rc != 0:
        ck.problem("translator", "rs_enummap2coq.py could not translate the mapping tables (fails closed): %s" % out.strip()[-1200:])
    info = json.load(open(info_path)) if os.path.exists(info_path) else {"tables": []}
    byname = {t["name"]: t for t in info["tables"]}
    rep = table_report(ck, pid, SETNAME, GEN, info) if rc == 0 else None
    if rep:
        ck.log("generated tables: %d tables, %d variants, %d failing variant(s)" % (len(info["tables"]), sum(len(t["variants"]) for t in info["tables"]), rep["bad"]))
    # ---- proofs over the regenerated tables
    proof_ok = ck.proof_step()
    # ---- build + run the implementation
    ok, out, dt = vlib.cargo_build("h_core", bin="c36")
    ck.log("cargo build h_core c36: ok=%s (%.0fs)" % (ok, dt))
    if not ok:
        ck.problem("tie", "harness build failed:\n" + out[-3000:])
        return ck.finish()
    rc, so, se, dt = vlib.run_bin("c36", ["--seed", seed, "--n", n], timeout=3000)
    cases = vlib.jsonl(so)
    if rc != 0:
        ck.problem("tie", "harness ended abnormally rc=%d: %s" % (rc, se[-1500:]))
    if not cases:
        return ck.finish()
    ops = [c for c in cases if c["k"] == "op"]
    plans = [c for c in cases if c["k"] == "plan"]
    ck.log("harness: %d operator cases, %d SQL plans (%.1fs)" % (len(ops), len(plans), dt))
    # ---- direct oracle
    nfail = {}

    def fail(what, case, key=None):
        nfail[key] = nfail.get(key, 0) + 1
        if key and nfail[key] > 3:
            return
        ck.fail_input(what, case, key=key)

    for c in ops:
        if not c["ok"]:
            fail("operator %s: %s" % (c["name"], (c["why"] or "")[:700]), {k: c[k] for k in ("id", "name", "why", "diff", "plan", "obs", "hj", "sort")}, key=c["key"] or classify(c))
        elif c["key"]:
            ck.notes.append("witness of %s no longer fails (fixed?): %s" % (c["key"], c["name"]))
        for o in c["obs"]:
            if o["back"] != o["variant"]:
                fail("operator %s: %s::%s is written as tag %s and read back as %s" % (c["name"], o["table"], o["variant"], o["tag"], o["back"]),
                     {"id": c["id"], "name": c["name"], "obs": o, "plan": c["plan"]})
    enc_skipped = sum(1 for c in ops + plans if c.get("skipped"))
    for c in plans:
        if not c["ok"]:
            fail("physical plan of `%s` [%s]: %s" % (c["sql"][:300], c["conf"], (c["why"] or "")[:700]),
                 {k: c.get(k) for k in ("id", "sql", "conf", "why", "diff", "plan")}, key=classify(c))
    if nfail:
        ck.log("oracle failures by class: %s" % nfail)
    # ---- tie: variants exercised vs variants in the source; tags / decoded variants / option blocks agree with the model
    obs_tables = {}
    for c in ops:
        for o in c["obs"]:
            obs_tables.setdefault(o["table"], set()).add(o["variant"])
    for tname, vs in obs_tables.items():
        t = byname.get(tname)
        if not t:
            ck.problem("tie", "harness reports table %s which the translator does not produce" % tname)
            continue
        missing = set(t["variants"]) - vs
        if vs - set(t["variants"]):
            ck.problem("tie", "table %s: the harness exercised variants %s that the source's encode match does not have" % (tname, sorted(vs - set(t["variants"]))))
        if missing:
            ck.problem("tie", "table %s: variants %s of the source's encode match are not exercised by the harness (new variant?)" % (tname, sorted(missing)))
    terms, tcases, seen = [], [], set()

    def cb(b):
        return "true" if b else "false"

    def ozl(x):
        return "None" if x is None else "(Some %s)" % vlib.zlist(x)

    for c in ops:
        for o in c["obs"]:
            sig = (o["table"], o["variant"], o["tag"], o["back"])
            if sig in seen:
                continue
            seen.add(sig)
            terms.append("CTabP (PCz %s %s %s %s)" % (cs(o["table"]), cs(o["variant"]), vlib.zlit(o["tag"]), "None" if o["back"] is None else "(Some %s)" % cs(o["back"])))
            tcases.append({"k": "obs", "op": c["name"], **o})
        h = c.get("hj")
        if h and h["back"]:
            o, w, b = h["op"], h["wire"], h["back"]
            terms.append("CHj %s %s %s %s %s %s (mk_phj %s %s %s %s %s %s) %s %s %s %s %s %s" % (
                cs(o["jt"]), cs(o["pm"]), cs(o["ne"]), cb(o["na"]), ozl(o["proj"]), vlib.optz(o["fetch"]),
                vlib.zlit(w["jt"]), vlib.zlit(w["pm"]), vlib.zlit(w["ne"]), cb(w["na"]), vlib.zlist(w["proj"]), vlib.optz(w["fetch"]),
                cs(b["jt"]), cs(b["pm"]), cs(b["ne"]), cb(b["na"]), ozl(b["proj"]), vlib.optz(b["fetch"])))
            tcases.append({"k": "hj", "op": c["name"], **h})
        for so_ in c.get("sort") or []:
            terms.append("CSort %s %s %s %s %s %s" % tuple(cb(so_[k]) for k in ("desc", "nf", "w_asc", "w_nf", "b_desc", "b_nf")))
            tcases.append({"k": "sort", "op": c["name"], **so_})
    if proof_ok and terms:
        pre = ("From Coq Require Import List String ZArith.\nFrom DF Require Import Base.Prelude Model.ProtoCodec Gen.ProtoEnumsPhys Model.C36Corr.\n"
               "Import ListNotations.\nOpen Scope string_scope.\nOpen Scope Z_scope.\n")
        bad, log, dt = vlib.coq_eval_cases(pre, "c36_case", "c36_check", terms, shard=max(200, len(terms) // 8 + 1), tag="c36")
        ck.log("correspondence: %d observations (tags, hash-join option blocks, sort flags), %d disagreements (%.1fs)" % (len(terms), len(bad), dt))
        for b in bad[:5]:
            if isinstance(b, int):
                ck.fail_input("model and implementation disagree on what is written / read back: %s" % json.dumps(tcases[b])[:600], tcases[b])
        if bad:
            ck.problem("tie", "model and implementation disagree on %d case(s); first: %s" % (len(bad), str(tcases[bad[0]] if isinstance(bad[0], int) else log)[:900]))
    # ---- coverage
    nodes = sorted({k for c in plans for k in c["nodes"]} | {l.strip().split(":")[0].split(" ")[0] for c in ops for l in c["plan"].splitlines() if l.strip()})
    executed = sum(1 for c in ops + plans if c.get("rows", -1) >= 0)
    plan_errs = sum(1 for c in plans if c["plan_err"])
    nt = {vlib.case_hash(c["name"]) for c in ops} | {vlib.case_hash([c["sql"], c["conf"]]) for c in plans if len(c["nodes"]) >= 3}
    ck.coverage.update({
        "evaluations": len(ops) + len(plans),
        "distinct_nontrivial": len(nt),
        "rule": "op: directly built operators -- HashJoinExec for every JoinType x PartitionMode x NullEquality, filter column sides, projections None / [] / some, fetch, "
                "null_aware; SymmetricHashJoinExec for every JoinType x NullEquality x StreamJoinPartitionMode; NestedLoop / SortMerge / Cross joins; SortExec + "
                "SortPreservingMergeExec for the 4 SortOptions x fetch x preserve_partitioning; AggregateExec in all 6 modes; window executors for every frame unit x bound kind "
                "and every InputOrderMode; limits, filter (projection, selectivity), projection, repartitioning (round robin / hash / unknown / order preserving), union; "
                "plan: a fixed SQL corpus under 5 session configurations (MemTable / parquet listing tables, 1-4 target partitions, partitioned vs collect-left hash joins, "
                "sort-merge joins, dynamic filters on/off) and C01's query generator (19 streams) under a random configuration; binary and JSON form, decoded with a fresh "
                "SessionContext and executed. non-trivial = distinct operator cases + distinct (SQL, configuration) whose plan has >= 3 operator kinds",
        "tables_generated": [t["name"] for t in info["tables"]],
        "variants_generated": sum(len(t["variants"]) for t in info["tables"]),
        "tables_observed_on_implementation": sorted(obs_tables),
        "tables_not_observed": sorted(set(byname) - set(obs_tables)),
        "operator_kinds": nodes,
        "plans": len(plans), "executed": executed, "plans_not_plannable": plan_errs, "encoder_rejected": enc_skipped,
        "traces_validated_against_impl": len(terms),
        "oracle_failures_by_class": {str(k): v for k, v in nfail.items()},
        "samples": [{k: c[k] for k in ("name", "obs", "ok")} for c in ops[7:9]] + [{"sql": c["sql"], "conf": c["conf"], "nodes": c["nodes"], "ok": c["ok"]} for c in plans[:1]],
        "trusted_base": vlib.TRUSTED_COMMON + [
            "translators/rs_enummap2coq.py (locates the pinned encode/decode match blocks by the shape of their first arm, parses arms, composes with the "
            "prost numbering; fails closed; cross-checked variant by variant against the encoded PhysicalPlanNode and the decoded operator by the harness)",
            "prost encodes an i32 enum field as the number in the generated `Variant = n` list and its TryFrom<i32> accepts exactly those numbers"],
    })
    ck.assumptions = ["theorems are about the model: the generated tables, sort options and the HashJoinExec option block; the field plumbing of every other operator and of the "
                      "physical expressions is covered by the differential oracle only (same displayable().indent(true) text, schema, partition count, rows)",
                      "C36_hash_join_options_round_trip assumes projection indices below u32::MAX (proj_ok); the sentinel collision outside it is C36_projection_sentinel_refuted"]
    return ck.finish()
