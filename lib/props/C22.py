"""C22 -- statistics-based pruning never skips a container with a matching row.  Tie: X."""
import vlib
from vlib import Check, zlit, optz, coq_bool

OPS = {"eq": "OEq", "ne": "ONe", "lt": "OLt", "le": "OLe", "gt": "OGt", "ge": "OGe", "df": "ODf", "ndf": "ONdf"}


def optb(b):
    return "None" if b is None else "(Some %s)" % coq_bool(b)


def nat(n):
    return "%d%%nat" % int(n)


def cref(kind, n):
    return "(%s %s)" % ("CI" if kind == "i" else "CB", nat(n))


def r_pred(p):
    k = p[0]
    if k == "lit":
        return "(PLit %s)" % optb(p[1])
    if k == "bcol":
        return "(PBCol %s)" % nat(p[1])
    if k == "not":
        return "(PNot %s)" % r_pred(p[1])
    if k == "isnull":
        return "(PIsNull %s)" % cref(p[1], p[2])
    if k == "isnotnull":
        return "(PIsNotNull %s)" % cref(p[1], p[2])
    if k == "cmp":
        return "(PCmp %s %s %s)" % (OPS[p[1]], nat(p[2]), optz(p[3]))
    if k == "cmpr":
        return "(PCmpR %s %s %s)" % (OPS[p[1]], optz(p[2]), nat(p[3]))
    if k == "and":
        return "(PAnd %s %s)" % (r_pred(p[1]), r_pred(p[2]))
    if k == "or":
        return "(POr %s %s)" % (r_pred(p[1]), r_pred(p[2]))
    if k == "in":
        return "(PIn %s [%s] %s)" % (nat(p[1]), "; ".join(optz(x) for x in p[2]), coq_bool(p[3]))
    raise ValueError("predicate outside the modelled fragment: %r" % (p,))


def r_row(r):
    return "{| ri := [%s]; rb := [%s] |}" % ("; ".join(optz(x) for x in r[0]), "; ".join(optb(x) for x in r[1]))


def r_stats(s):
    si = "; ".join("{| imin := %s; imax := %s; inc := %s |}" % (optz(a), optz(b), optz(c)) for a, b, c in s["i"])
    sb = "; ".join("{| bmin := %s; bmax := %s; bnc := %s |}" % (optb(a), optb(b), optz(c)) for a, b, c in s["b"])
    return "{| si := [%s]; sb := [%s]; src := %s |}" % (si, sb, optz(s["rc"]))


EV = {"T": "Some true", "F": "Some false", "N": "None"}


def r_cont(c):
    return "([%s], %s, %s, [%s])" % ("; ".join(r_row(r) for r in c["rows"]), r_stats(c["stats"]),
                                      coq_bool(c["keep"]), "; ".join(EV[e] for e in c["evals"]))


def render(c):
    return "C22 %s [%s]" % (r_pred(c["pred"]), ";\n  ".join(r_cont(x) for x in c["containers"]))


def has_node(p, kinds):
    return p[0] in kinds or any(isinstance(x, list) and x and isinstance(x[0], str) and has_node(x, kinds) for x in p[1:])


def run(pid, tier, seed, replay):
    ck = Check(pid, tier, seed, level="proof")
    n = 1500 if tier == "quick" else 40000
    ck.proof_step(extra_targets=["Model/Pruning.vo"])
    ok, out, dt = vlib.cargo_build("h_pruning", bin="c22")
    ck.log("cargo build: ok=%s (%.0fs)" % (ok, dt))
    if not ok:
        ck.problem("tie", "harness build failed:\n" + out[-3000:])
        return ck.finish()
    rc, so, se, dt = vlib.run_bin("c22", ["--seed", seed, "--n", n])
    cases = vlib.jsonl(so)
    if rc != 0:
        ck.problem("tie", "harness ended abnormally rc=%d: %s" % (rc, se[-1500:]))
    if not cases:
        ck.problem("tie", "harness produced no cases")
        return ck.finish()
    ck.log("harness: %d cases (%.1fs)" % (len(cases), dt))
    errors = {"modelled": 0, "other": 0}
    for c in cases:
        if not c["ok"]:
            # listed known finding: a negated column whose container holds i64::MIN (the negation wraps when the
            # predicate is evaluated on the row, the rewritten statistics predicate reasons without the wrap)
            imin = -2 ** 63
            key = None
            if "(- " in c.get("sql", "") and "panic" not in c and any(
                    imin in r[0] for k in c.get("containers", []) for r in k.get("rows", [])):
                key = "C22-negation-of-i64-min-wraps"
            ck.fail_input("pruning: " + (c.get("why") or "") + (" panic: " + c["panic"] if "panic" in c else ""),
                          {"predicate": c["sql"], "pred": c["pred"], "containers": c["containers"], "guarantees": c.get("guarantees")}, key=key)
        if "error" in c:
            errors["modelled" if c["modelled"] else "other"] += 1
            if c["modelled"]:
                ck.problem("tie", "the implementation returned an error on a predicate of the modelled fragment: %s: %s" % (c["sql"], c["error"]))
    corr = [c for c in cases if c["modelled"] and "error" not in c and "panic" not in c]
    pre = "From DF Require Import Base.Prelude Model.Pruning.\nOpen Scope Z_scope."
    bad, log, dt = vlib.coq_eval_cases(pre, "c22_case", "c22_check", [render(c) for c in corr], shard=150, tag="c22")
    ck.log("correspondence: %d cases, %d disagreements (%.1fs)" % (len(corr), len(bad), dt))
    if bad:
        first = bad[0]
        ck.problem("tie", "model and implementation disagree (keep/skip decision, row evaluation, or statistics validity) on %d cases; first: %s"
                   % (len(bad), str({k: corr[first][k] for k in ("sql", "pred", "containers")} if isinstance(first, int) else log)[:2500]))
    done = [c for c in cases if "error" not in c and "panic" not in c]
    conts = [(c, x) for c in done for x in c["containers"]]
    skipped = [(c, x) for c, x in conts if not x["keep"]]
    skipped_c = [(c, x) for c, x in conts if x["keep"] and not x["keep_c"]]
    nt = {vlib.case_hash([c["pred"], x["rows"], x["stats"]]) for c, x in skipped + skipped_c}
    shapes = {}
    for k in ("and", "or", "not", "in", "cmp", "cmpr", "isnull", "isnotnull", "bcol", "lit", "x"):
        shapes[k] = sum(1 for c in done if has_node(c["pred"], (k,)))
    sample = next((c for c in corr if any(not x["keep"] for x in c["containers"]) and has_node(c["pred"], ("and", "or"))), corr[0])
    ck.coverage.update({
        "evaluations": len(conts),
        "distinct_nontrivial": len(nt),
        "rule": "predicates of depth 0..4 over nullable i0,i1:Int64, b0,b1:Boolean: column/literal comparisons either side with =,!=,<,<=,>,>=, IS [NOT] DISTINCT FROM "
                "(literals from {-2..5, i64::MIN, MIN+1, MAX-1, MAX, NULL}), [NOT] IN lists of 1..4 and 19..23 literals, IS [NOT] NULL, Boolean column, NOT, AND, OR, "
                "literal TRUE/FALSE/NULL; every 5th case may also use shapes outside the model (-col, try_cast, cast to Float64, Boolean comparisons, col op col, "
                "col + k); 1..5 containers of 0..6 rows per predicate (all-NULL, constant, NULL-free and mixed columns); statistics = exact values randomly widened, "
                "made unknown (per container or as an absent array), or arbitrary for columns without non-null values; "
                "non-trivial = a (predicate, rows, statistics) triple whose container was skipped by the min/max pass or by the literal-guarantee pass",
        "predicates": len(done),
        "containers_skipped_minmax": len(skipped),
        "containers_skipped_only_with_contained": len(skipped_c),
        "containers_with_a_true_row": sum(1 for c, x in conts if "T" in x["evals"]),
        "cases_with_literal_guarantees": sum(1 for c in done if c.get("guarantees")),
        "predicate_shapes": shapes,
        "implementation_errors": errors,
        "traces_validated_against_impl": len(corr),
        "samples": [{"predicate": sample["sql"], "containers": sample["containers"][:2], "guarantees": sample.get("guarantees")}],
        "trusted_base": vlib.TRUSTED_COMMON + [
            "row truth comes from the real PhysicalExpr::evaluate on the container's rows; the model's SQL evaluation (eval) is compared with it on every modelled case",
            "outside the modelled fragment (negation, casts, Boolean comparisons, column-column, arithmetic) and for the LiteralGuarantee/contained pass the "
            "property is decided by the oracle only",
            "PhysicalExprSimplifier applied to the rewritten predicate is not modelled (the model evaluates the unsimplified rewrite; any difference would show as a tie disagreement)"],
    })
    ck.assumptions = ["statistics are valid for the container (valid_stats; checked on every generated case by valid_statsb, proved sound)",
                      "Int64/Boolean columns only: float, string (LIKE), decimal and temporal statistics are not covered",
                      "i64 comparisons do not overflow (none of the modelled shapes does arithmetic)"]
    return ck.finish()
