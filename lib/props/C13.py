"""C13 -- group-key interning: dense, consistent numbering under every operation history.  Tie: X."""
import vlib
from vlib import Check, zlit, zlist


def key(k):
    return "[" + "; ".join("None" if v is None else "Some %s" % zlit(v) for v in k) + "]"


def keys(ks):
    return "[" + "; ".join(key(k) for k in ks) + "]"


def r_op(o):
    if o["op"] == "intern":
        return "Intern %s" % keys(o["keys"])
    if o["op"] == "all":
        return "EmitAll"
    if o["op"] == "first":
        return "EmitFirst %s" % zlit(o["n"])
    return "Clear"


def r_out(o):
    if "ids" in o:
        return "OIds %s %s" % (zlist(o["ids"]), zlit(o["len"]))
    if "keys" in o:
        return "OEmit %s %s" % (keys(o["keys"]), zlit(o["len"]))
    return "OClear %s" % zlit(o["len"])


def render(c):
    return "C13 %d [%s] [%s]" % (c["kind"], "; ".join(r_op(o) for o in c["ops"]), "; ".join(r_out(o) for o in c["outs"]))


def nontrivial(c):
    """a history is non-trivial if an emit/clear is followed by a later intern of >= 1 row"""
    seen_reset = False
    for o in c["ops"]:
        if o["op"] in ("all", "first", "clear"):
            seen_reset = True
        elif seen_reset and o["keys"]:
            return True
    return False


def run(pid, tier, seed, replay):
    ck = Check(pid, tier, seed, level="proof")
    n = 2000 if tier == "quick" else 60000
    proof_ok = ck.proof_step(extra_targets=["Model/GroupValues.vo"])
    ok, out, dt = vlib.cargo_build("h_physplan", bin="c13")
    ck.log("cargo build: ok=%s (%.0fs)" % (ok, dt))
    if not ok:
        ck.problem("tie", "harness build failed:\n" + out[-3000:])
        return ck.finish()
    rc, so, se, dt = vlib.run_bin("c13", ["--seed", seed, "--n", n])
    cases = [c for c in vlib.jsonl(so) if "ops" in c]
    if rc != 0:
        ck.problem("tie", "harness ended abnormally rc=%d (a crash inside a store aborts the process): %s" % (rc, se[-1500:]))
    if not cases:
        return ck.finish()
    ck.log("harness: %d histories (%.1fs)" % (len(cases), dt))
    stores = {}
    for c in cases:
        stores[c["store"]] = stores.get(c["store"], 0) + 1
        if not c["ok"]:
            ck.fail_input("store %s: %s" % (c["store"], c["why"]), {"store": c["store"], "ops": c["ops"], "outs": c["outs"], "why": c["why"]})
    good = [c for c in cases if c["ok"] and all(("panic" not in o and "err" not in o) for o in c["outs"])]
    pre = "From DF Require Import Base.Prelude Model.GroupValues.\nOpen Scope Z_scope."
    bad, log, dt = vlib.coq_eval_cases(pre, "c13_case", "c13_check", [render(c) for c in good], shard=300, tag="c13")
    ck.log("correspondence: %d histories, %d disagreements (%.1fs)" % (len(good), len(bad), dt))
    if bad:
        first = bad[0]
        ck.problem("tie", "model/specification and implementation disagree on %d histories; first: %s"
                   % (len(bad), str(good[first] if isinstance(first, int) else log)[:1500]))
    nt = {vlib.case_hash([c["store"], c["ops"]]) for c in cases if nontrivial(c)}
    opmix = {}
    for c in cases:
        for o in c["ops"]:
            opmix[o["op"]] = opmix.get(o["op"], 0) + 1
    ck.coverage.update({
        "evaluations": len(cases),
        "distinct_nontrivial": len(nt),
        "rule": "random histories (2..10 ops; intern batches of 0..6 rows over 2..8 codes with 20% NULLs, -0.0/+0.0 and NaN for floats, "
                "short and >12-byte strings; emit(All); emit(First n) with 0<=n<=len; clear_shrink) on every store family returned by "
                "new_group_values plus GroupValuesRows built directly; non-trivial = an emit/clear is followed by a non-empty intern; "
                "distinct by (store, op list)",
        "stores": stores,
        "op_mix": opmix,
        "traces_validated_against_impl": len(good),
        "samples": [{"store": c["store"], "ops": c["ops"], "outs": c["outs"]} for c in cases[:2]],
        "trusted_base": vlib.TRUSTED_COMMON + [
            "harness value<->code maps per Arrow type (injective; -0.0/+0.0 share a code, as SQL equality requires)",
            "hashbrown's HashTable is modelled as a search over its entries (the hash only accelerates the search)"],
    })
    ck.assumptions = ["EmitTo::First(n) is only called with n <= len() (its documented contract)"]
    return ck.finish()
