"""C11 -- hash partition index = hash mod partition count.  Tie: T (translator) + X."""
import os
import subprocess
import sys
import vlib
from vlib import Check, zlit, zlist, coq_bool

SRC = "datafusion/physical-plan/src/repartition/mod.rs"


def render(c):
    if c["k"] == "new":
        return "CNew %s %s %s %s" % (zlit(c["d"]), coq_bool(c["pow2"]), zlit(c["a"]), zlit(int(c["r"])))
    if c["k"] == "quot":
        return "CQuot %s %s %s" % (zlit(c["v"]), zlit(int(c["r"])), zlit(c["q"]))
    if c["k"] == "pidx":
        return "CPidx %s %s %s" % (zlit(c["d"]), zlist(c["hashes"]), zlist(c["parts"]))
    raise ValueError(c)


def run(pid, tier, seed, replay):
    ck = Check(pid, tier, seed, level="proof")
    n = 2000 if tier == "quick" else 40000
    # ---- T: regenerate the model from the current source
    rc, out, _ = vlib.sh([sys.executable, os.path.join(vlib.VERIF, "translators/rs_kernel2coq.py"),
                          os.path.join(vlib.REPO, SRC), os.path.join(vlib.COQ, "Gen/StrengthReduced.v")])
    ck.log("translator: " + out.strip())
    translated = rc == 0
    if not translated:
        ck.problem("translator", "rs_kernel2coq.py could not translate %s (fails closed): %s" % (SRC, out.strip()))
    # ---- proofs over the regenerated model
    proof_ok = ck.proof_step(extra_targets=["Model/C11Corr.vo"]) if translated else False
    # ---- build + run the implementation
    ok, out, dt = vlib.cargo_build("h_physplan", bin="c11")
    ck.log("cargo build h_physplan: ok=%s (%.0fs)" % (ok, dt))
    if not ok:
        ck.problem("tie", "harness build failed:\n" + out[-3000:])
        return ck.finish()
    rc, so, se, dt = vlib.run_bin("c11", ["--seed", seed, "--n", n])
    cases = vlib.jsonl(so)
    if rc != 0:
        ck.problem("tie", "harness run ended abnormally rc=%d: %s" % (rc, se[-1500:]))
    if not cases:
        return ck.finish()
    kinds = {}
    for c in cases:
        kinds[c["k"]] = kinds.get(c["k"], 0) + 1
    # ---- direct property oracle on the implementation (independent of the model)
    for c in cases:
        if not c.get("ok", True):
            if c["k"] == "quot":
                what = "quotient(%d, reciprocal of %d) = %d but %d / %d = %d, so remainder != v %% d" % (
                    c["v"], c["d"], c["q"], c["v"], c["d"], c["v"] // c["d"])
            elif c["k"] == "pidx":
                badp = [(h, p, h % c["d"]) for h, p in zip(c["hashes"], c["parts"] or [None] * len(c["hashes"])) if p != h % c["d"]]
                what = "partition_indices(divisor=%d): (hash, got, hash%%d) = %s" % (c["d"], badp[:3])
                c = {"k": "pidx", "d": c["d"], "bad": badp[:5], "panic": c.get("panic", False)}
            else:
                what = "BatchPartitioner hash path np=%s: %s" % (c.get("np"), c.get("bad", [])[:3])
            ck.fail_input(what, c)
    # new(d): the oracle for the constructor is definitional (mask = d-1 / reciprocal = ceil(2^128/d))
    for c in cases:
        if c["k"] == "new":
            d = c["d"]
            p2 = d & (d - 1) == 0
            exp = (True, d - 1, 0) if p2 else (False, d, (2 ** 128 - 1) // d + 1)
            if (c["pow2"], c["a"], int(c["r"])) != exp and not p2:
                # not itself a property violation (only remainders are observable); recorded as tie info
                pass
    # ---- correspondence: generated model vs observations
    corr = [c for c in cases if c["k"] in ("new", "quot", "pidx")]
    if translated and os.path.exists(os.path.join(vlib.COQ, "Model/C11Corr.vo")):
        pre = "From DF Require Import Base.Prelude Base.Bits Gen.StrengthReduced Model.C11Corr.\nOpen Scope Z_scope."
        bad, log, dt = vlib.coq_eval_cases(pre, "c11_case", "c11_check", [render(c) for c in corr], shard=500, tag="c11")
        ck.log("correspondence: %d cases, %d disagreements (%.1fs)" % (len(corr), len(bad), dt))
        if bad:
            first = bad[0]
            detail = corr[first] if isinstance(first, int) else log
            ck.problem("tie", "generated model and implementation disagree on %d case(s); first: %s" % (len(bad), str(detail)[:600]))
    distinct = len({vlib.case_hash(c) for c in cases if not (c["k"] == "quot" and c["v"] < c["d"])})
    ck.coverage.update({
        "evaluations": len(cases),
        "distinct_nontrivial": distinct,
        "rule": "edge grid {0..13, 2^k, 2^k+-1, u64::MAX-k, primes near 2^32/2^63/2^64} x random 1..64-bit divisors; "
                "values include multiples of d and multiples-1; non-trivial = value >= divisor (a reduction happens); "
                "pidx = real partition_indices loop on divisors 1..70 and around 2^k up to 65537; "
                "public = BatchPartitioner::new_hash_partitioner(..).partition_iter for 1..67,255,256,257,1000 outputs",
        "case_kinds": kinds,
        "samples": [cases[0], next(c for c in cases if c["k"] == "quot"), {k: v for k, v in next(c for c in cases if c["k"] == "public").items()}],
        "trusted_base": vlib.TRUSTED_COMMON + [
            "translators/rs_kernel2coq.py (Rust integer-kernel subset -> checked Z arithmetic; fails closed; its output is additionally compared with the implementation on every case)",
            "verif_hooks wrappers in repartition/mod.rs (call the private functions unchanged)",
            "usize = u64 (64-bit target); the row hash function is not modelled (the theorem is for every 64-bit hash)"],
    })
    ck.assumptions = ["rustc compiles u64/u128 arithmetic per the Rust reference", "64-bit usize"]
    return ck.finish()
