"""C25 -- written files read back to the data that was written.  Tie: X."""
import vlib
from vlib import Check, zlit

KF_NULL = "C25-null-partition-value"
KF_NAME = "C25-partition-column-name-needs-encoding"
KF_NAN = "C25-parquet-nan-constant-column"

TY = {"int": "TyInt", "str": "TyStr", "bool": "TyBool", "date": "TyDate", "float": "TyOpq"}


def txt(s):
    return "[" + "; ".join(str(b) for b in s.encode("utf-8")) + "]"


def r_cell(c, part):
    # data columns are opaque to the demultiplexer (only the id column is looked at by the checker)
    if c is None:
        return "CNull"
    if "i" in c:
        return "CInt %s" % zlit(int(c["i"]))
    if not part:
        return "COpq 0"
    if "s" in c:
        return "CStr %s" % txt(c["s"])
    if "b" in c:
        return "CBool %s" % ("true" if c["b"] else "false")
    if "d" in c:
        return "CDate %s" % zlit(c["d"])
    return "COpq 0"


def r_hive(c):
    pby = c["pby"]
    cols = c["cols"]
    schema = "[" + "; ".join("(%s, %s)" % (txt(n), TY[t]) for n, t in cols) + "]"
    ispart = [n in pby for n, _ in cols]
    batches = "[" + "; ".join(
        "[" + "; ".join("[" + "; ".join(r_cell(cell, ispart[i]) for i, cell in enumerate(row)) + "]" for row in b) + "]"
        for b in c["batches"]) + "]"
    obs = "[" + "; ".join("([%s], %s)" % ("; ".join(txt(s) for s in f["path"][:-1]), vlib.zlist(f["ids"])) for f in c["files"]) + "]"
    return "CHive %s [%s] %s %s %s" % (schema, "; ".join(txt(p) for p in pby), vlib.coq_bool(c["opts"]["keep"]), batches, obs)


def part_idx(name):
    # <write_id>_<n>.<ext>
    stem = name.split(".")[0]
    return int(stem.rsplit("_", 1)[1])


def r_flat(c):
    idcol = [n for n, _ in c["cols"]].index("id")
    batches = "[" + "; ".join(vlib.zlist([int(row[idcol]["i"]) for row in b]) for b in c["batches"]) + "]"
    o = c["opts"]
    obs = "[" + "; ".join("(%d, %s)" % (part_idx(f["path"][-1]), vlib.zlist(f["ids"])) for f in c["files"]) + "]"
    return "CFlat false %d %s %s %s" % (o["min_par"], zlit(o["max_rows"]), batches, obs)


def r_csv(c):
    recs = ([c["header"]] if c["header"] is not None else []) + c["rows"]
    return "CCsvBytes %d [%s] %s" % (c["delim"], "; ".join("[" + "; ".join(txt(f) for f in r) + "]" for r in recs), vlib.zlist(c["bytes"]))


def run(pid, tier, seed, replay):
    ck = Check(pid, tier, seed, level="proof")
    n = 150 if tier == "quick" else 2500
    ck.proof_step(extra_targets=["Model/WriteDemux.vo"])
    ok, out, dt = vlib.cargo_build("h_core", bin="c25")
    ck.log("cargo build: ok=%s (%.0fs)" % (ok, dt))
    if not ok:
        ck.problem("tie", "harness build failed:\n" + out[-3000:])
        return ck.finish()
    rc, so, se, dt = vlib.run_bin("c25", ["--seed", seed, "--n", n])
    cases = vlib.jsonl(so)
    if rc != 0:
        ck.problem("tie", "harness ended abnormally rc=%d: %s" % (rc, se[-1500:]))
    if not cases:
        ck.problem("tie", "harness printed no cases")
        return ck.finish()
    kinds = {}
    for c in cases:
        kinds[c["k"]] = kinds.get(c["k"], 0) + 1
        if c["ok"]:
            continue
        key = None
        if c.get("nullpart"):
            key = KF_NULL
        elif c.get("weird_name"):
            key = KF_NAME
        elif c.get("nan_const") and c.get("why", "").startswith("read-back bag differs"):
            key = KF_NAN
        small = {k: c.get(k) for k in ("tag", "fmt", "opts", "cols", "pby", "batches", "files", "readback", "write_error") if k in c}
        ck.fail_input("write/read round trip: " + c.get("why", "")[:900], small, key=key)
    ck.log("harness: %s (%.1fs)" % (kinds, dt))
    # the fixed witnesses of the listed findings must still fail (else the finding is stale)
    for tag, kf in (("W1-null-utf8-partition", KF_NULL), ("W2-null-int-partition", KF_NULL), ("W3-partition-column-name-needs-encoding", KF_NAME),
                    ("W6-parquet-nan-constant-column", KF_NAN)):
        ws = [c for c in cases if c.get("tag") == tag]
        if not ws:
            ck.problem("tie", "fixed witness %s did not run" % tag)
        elif all(c["ok"] for c in ws):
            ck.notes.append("fixed witness %s of known finding %s now passes: the finding looks repaired" % (tag, kf))
    # correspondence
    corr, terms = [], []
    for c in cases:
        if "files" not in c or "write_error" in c:
            continue
        if c["k"] == "hive":
            # the model states what is written; files the harness could not read alone are oracle failures already
            corr.append(c); terms.append(r_hive(c))
        elif c["k"] == "flat":
            corr.append(c); terms.append(r_flat(c))
    for c in cases:
        if c["k"] == "csvbytes" and c["ok"]:
            corr.append(c); terms.append(r_csv(c))
    pre = "From DF Require Import Base.Prelude Model.ListingPrune Model.CliSplit Model.WriteDemux.\nOpen Scope Z_scope."
    bad, log, dt = vlib.coq_eval_cases(pre, "c25_case", "c25_check", terms, shard=100, tag="c25")
    ck.log("correspondence: %d cases, %d disagreements (%.1fs)" % (len(corr), len(bad), dt))
    if bad:
        first = bad[0]
        cc = corr[first] if isinstance(first, int) else None
        small = {k: cc.get(k) for k in ("k", "tag", "fmt", "opts", "cols", "pby", "batches", "files", "delim", "header", "rows", "bytes") if cc and k in cc}
        if cc is not None:
            ck.fail_input("written layout differs from the demux/CSV model (paths, rows per file, or bytes)", small)
        ck.problem("tie", "model and implementation disagree on %d cases; first: %s" % (len(bad), str(small if cc else log)[:1500]))
    nt = {vlib.case_hash([c["cols"], c["pby"], c["batches"], c["opts"], c["fmt"]]) for c in cases
          if c["k"] in ("hive", "flat") and len(c.get("files", [])) >= 2}
    ck.coverage.update({
        "evaluations": len(cases),
        "distinct_nontrivial": len(nt),
        "rule": "tables of 0..13 rows in 1..5-row batches: id + 0..3 nullable data columns (Int64/Utf8/Boolean/Date32/Float64; "
                "strings with delimiters, quotes, CR/LF, unicode, leading/trailing blanks, the texts NULL/null; i64 extremes, -0.0, NaN, inf) "
                "+ 0..3 partition columns (Utf8/Int64/Boolean/Date32) anywhere in the schema with values containing space / = % . .. \\ ? # \" newline tab, "
                "unicode, the empty string, case variants; CSV (header on/off, delimiter , ; | tab, quote \" or ', gzip), NDJSON (gzip), Parquet; "
                "COPY TO / DataFrame::write_* / INSERT INTO external table; keep_partition_by_columns; minimum_parallel_output_files 1..4, "
                "soft_max_rows_per_output_file 1..5 or default, max_buffered_batches 1..4, single-file output; non-trivial = a write that produced >= 2 files",
        "case_kinds": kinds,
        "traces_validated_against_impl": len(corr),
        "samples": [next((c for c in cases if c["k"] == "hive" and c.get("tag") == "gen" and len(c.get("files", [])) >= 2), None),
                    next((c for c in cases if c["k"] == "flat" and len(c.get("files", [])) >= 2), None)],
        "trusted_base": vlib.TRUSTED_COMMON + [
            "Parquet / NDJSON / gzip encoders and decoders and the CSV reader are exercised end to end only (bag equality of read-back vs written); "
            "the CSV writer's bytes are compared with C51's write_csv model for uncompressed files with quote \"",
            "typed parsing of partition value texts (ScalarValue::try_from_string) is checked by the read-back oracle, not modelled",
            "NULL slots of partition columns hold the type's zero (arrays built from Option vectors)",
            "object_store LocalFileSystem keeps the percent-encoded segment as the on-disk name and lists it back unchanged"],
    })
    ck.assumptions = [
        "C25_demux_readback assumes partition column names without '=' that PathPart does not encode, and partition value texts that are valid UTF-8; "
        "NULL partition values and encoded column names are refuted (C25_null_partition_refuted, C25_encoded_name_refuted) and listed as known findings",
        "per-format promise used by the oracle: CSV: NULL and the empty string are one encoding (compared as equal in Utf8 columns); "
        "NDJSON: NaN/+-inf have no encoding (written as null); all: any NaN equals any NaN; an empty input written to a directory produces no file",
        "row order within a file is checked with one input partition (target_partitions = 1)"]
    return ck.finish()
