"""C07 -- aggregate function state can be split, merged and retracted exactly.  Tie: X (Coq model of the integer /
boolean accumulators and of the vectorised NullState accumulators, replayed against the implementation)."""
import struct
from fractions import Fraction

import vlib
from vlib import Check, zlit, coq_bool

SCALAR = {"count(i64)": 0, "count(i64) distinct": 1, "sum(i64)": 2, "min(i64)": 3, "max(i64)": 4, "avg(f64)": 5,
          "bool_and(bool)": 6, "bool_or(bool)": 7, "bit_and(i64)": 8, "bit_or(i64)": 9, "bit_xor(i64)": 10,
          "first_value(i64)": 11, "first_value(i64) ignore_nulls": 12, "last_value(i64)": 13,
          "last_value(i64) ignore_nulls": 14, "median(f64)": 15}
# the accumulator create_sliding_accumulator returns
SLIDING = {"count(i64)": 0, "sum(i64)": 16, "avg(f64)": 5, "min(i64)": 17, "max(i64)": 18, "bit_xor(i64)": 10}
GROUPS = {"count(i64)": 0, "sum(i64)": 2, "min(i64)": 3, "max(i64)": 4, "avg(f64)": 5, "bool_and(bool)": 6,
          "bool_or(bool)": 7, "bit_and(i64)": 8, "bit_or(i64)": 9, "bit_xor(i64)": 10}


class Skip(Exception):
    pass


def r_val(v):
    """one input value -> option Z (booleans as 0/1, integral doubles as integers)"""
    if v is None:
        return "None"
    if isinstance(v, bool):
        return "(Some %d)" % (1 if v else 0)
    if isinstance(v, float):
        if v != int(v):
            raise Skip()
        v = int(v)
    return "(Some %s)" % zlit(v)


def r_batch(rows):
    return "[" + "; ".join(r_val(r[0]) for r in rows) + "]"


def r_res(o):
    """an observed result -> res"""
    if o is None:
        return "RNull"
    if isinstance(o, bool):
        return "(RBool %s)" % coq_bool(o)
    if isinstance(o, int):
        return "(RInt %s)" % zlit(o)
    if isinstance(o, dict) and "f" in o and len(o["f"]) == 16:
        x = struct.unpack(">d", bytes.fromhex(o["f"]))[0]
        if x != x or x in (float("inf"), float("-inf")):
            raise Skip()
        fr = Fraction(x)
        if fr.denominator == 1:
            return "(RInt %s)" % zlit(fr.numerator)
        return "(RFrac %s %s)" % (zlit(fr.numerator), zlit(fr.denominator))
    if isinstance(o, list):
        if not all(isinstance(x, int) and not isinstance(x, bool) for x in o):
            raise Skip()
        return "(RList %s)" % vlib.zlist(o)
    raise Skip()


def r_reslist(l):
    return "[" + "; ".join(r_res(x) for x in l) + "]"


def r_filter(f):
    if f is None:
        return "None"
    return "(Some [" + "; ".join("None" if x is None else "(Some %s)" % coq_bool(x) for x in f) + "])"


def r_emit(n):
    return "None" if n is None else "(Some %s)" % zlit(n)


def render_scalar(c):
    i = SCALAR[c["fn"]]
    rows = c["rows"]
    split = "[" + "; ".join(r_batch(rows[a:b]) for a, b in c["split"]) + "]"
    parts = "[" + "; ".join("[" + "; ".join(r_batch(rows[a:b]) for a, b in p) + "]" for p in c["parts"]) + "]"
    for o in [c["whole"], c["split_res"], c["merged"]] + c["part_evals"]:
        if isinstance(o, dict) and "err" in o:
            raise Skip()
    return "CScalar %d %s %s %s %s %s %s %s %s" % (
        i, split, parts, vlib.zlist(c["order"]), coq_bool(c["single_call"]), r_res(c["whole"]),
        r_res(c["split_res"]), r_reslist(c["part_evals"]), r_res(c["merged"]))


def render_retract(c):
    i = SLIDING[c["fn"]]
    rows = c["rows"]
    steps = []
    ps, pe = 0, 0
    for (s, e), o in zip(c["frames"], c["obs"]):
        if s == e:
            continue
        if isinstance(o, dict) and "err" in o:
            raise Skip()
        steps.append("(%s, %s, %s)" % (r_batch(rows[pe:e]) if e > pe else "[]", r_batch(rows[ps:s]) if s > ps else "[]", r_res(o)))
        ps, pe = s, e
    return "CRetract %d [%s]" % (i, "; ".join(steps))


def render_groups(c):
    i = GROUPS[c["fn"]]
    ops = []
    for o in c["ops"]:
        if "err" in o:
            raise Skip()
        if o["op"] == "upd":
            ops.append("GUpd %s %s %s %s" % (r_batch(o["rows"]), vlib.zlist(o["g"]), r_filter(o["f"]), zlit(o["total"])))
        elif o["op"] == "merge":
            ops.append("GMerge [%s] %s %s" % ("; ".join(r_reslist(w) for w in o["w"]), vlib.zlist(o["g"]), zlit(o["total"])))
        elif o["op"] == "eval":
            ops.append("GEval %s %s" % (r_emit(o["n"]), r_reslist(o["out"])))
        elif o["op"] == "state":
            ops.append("GState %s [%s]" % (r_emit(o["n"]), "; ".join(r_reslist(w) for w in o["out"])))
        elif o["op"] == "conv":
            ops.append("GConv %s %s [%s]" % (r_batch(o["rows"]), r_filter(o["f"]), "; ".join(r_reslist(w) for w in o["out"])))
    return "CGroups %d [%s]" % (i, "; ".join(ops))


def finding_key(c):
    """stable keys of the input classes of the listed findings"""
    fn, k, why = c["fn"], c["k"], c.get("why", "")
    if k == "retract" and fn.startswith("bit_xor(") and "distinct" not in fn:
        # a frame without non-NULL rows after a non-NULL row has left: 0 instead of NULL
        for o, r in zip(c["obs"], c["recomputed"]):
            if o != r and not (o == 0 and r is None):
                return None
        return "bit_xor-retract-null"
    if k == "groups" and fn == "bit_xor(i64) distinct":
        return "bit_xor-distinct-groups"
    if fn == "nth_value(i64)[-2]" and ((k == "scalar" and why == "merge") or (k == "groups" and "merge" in str(c["ops"]))):
        return "nth_value-negative-n-merge"
    if k == "groups" and fn.startswith("percentile_cont(") and "convert_to_state failed: panic:assertion" in why \
            and "one argument to merge_batch" in why:
        return "percentile_cont-convert_to_state-args"
    return None


def run(pid, tier, seed, replay):
    ck = Check(pid, tier, seed, level="proof")
    n = 14 if tier == "quick" else 250
    ck.proof_step(extra_targets=["Model/Accum.vo"])
    ok, out, dt = vlib.cargo_build("h_expr", bin="c07")
    ck.log("cargo build: ok=%s (%.0fs)" % (ok, dt))
    if not ok:
        ck.problem("tie", "harness build failed:\n" + out[-3000:])
        return ck.finish()
    rc, so, se, dt = vlib.run_bin("c07", ["--seed", seed, "--n", n], timeout=3000)
    cases = vlib.jsonl(so)
    if rc != 0:
        ck.problem("tie", "harness ended abnormally rc=%d: %s" % (rc, se[-1500:]))
    fns = [c for c in cases if c["k"] == "fn"]
    cases = [c for c in cases if c["k"] != "fn"]
    if not cases:
        ck.problem("tie", "harness produced no cases")
        return ck.finish()
    kinds = {}
    for c in cases:
        kinds[c["k"]] = kinds.get(c["k"], 0) + 1
    ck.log("harness: %d function configurations, %s (%.1fs)" % (len(fns), kinds, dt))

    # ---- the direct oracle on the implementation (every builtin aggregate)
    nfail = 0
    for c in cases:
        if not c["ok"]:
            nfail += 1
            key = finding_key(c)
            what = "%s %s: %s" % (c["k"], c["fn"], c.get("why", ""))
            small = {k: c[k] for k in c if k not in ("ok", "approx", "sketch")}
            ck.fail_input(what[:300], small, key=key)
    ck.log("oracle: %d failing cases" % nfail)

    # ---- correspondence with the Coq model
    terms, src, skipped = [], [], 0
    for c in cases:
        try:
            if c["k"] == "scalar" and c["fn"] in SCALAR:
                t = render_scalar(c)
            elif c["k"] == "retract" and c["fn"] in SLIDING:
                t = render_retract(c)
            elif c["k"] == "groups" and c["fn"] in GROUPS and c.get("native"):
                t = render_groups(c)
            else:
                continue
        except Skip:
            skipped += 1
            continue
        terms.append(t)
        src.append(c)
    pre = "From DF Require Import Base.Prelude Model.Accum.\nOpen Scope Z_scope."
    bad, log, dt = vlib.coq_eval_cases(pre, "c07_case", "c07_check", terms, shard=150, tag="c07")
    ck.log("correspondence: %d cases (%d skipped: non-integral doubles / errors), %d disagreements (%.1fs)"
           % (len(terms), skipped, len(bad), dt))
    if bad:
        first = bad[0]
        ck.problem("tie", "model and implementation disagree on %d cases; first: %s"
                   % (len(bad), (str({k: v for k, v in src[first].items()}) if isinstance(first, int) else log)[:1800]))

    per_fn = {}
    for c in cases:
        d = per_fn.setdefault(c["fn"], {"scalar": 0, "retract": 0, "groups": 0})
        d[c["k"]] += 1
    tied = {}
    for c in src:
        tied[c["fn"] + "/" + c["k"]] = tied.get(c["fn"] + "/" + c["k"], 0) + 1
    nt = set()
    for c in cases:
        if c["k"] == "scalar" and len(c["parts"]) > 1 and any(r[0] is not None for r in c["rows"]):
            nt.add(vlib.case_hash([c["fn"], c["rows"], c["parts"], c["order"]]))
        elif c["k"] == "retract" and any(s < e and s > 0 for s, e in c["frames"]):
            nt.add(vlib.case_hash([c["fn"], c["rows"], c["frames"]]))
        elif c["k"] == "groups" and sum(1 for o in c["ops"] if o["op"] in ("upd", "merge")) >= 1 \
                and any(o["op"] in ("eval", "state") and o.get("out") for o in c["ops"]):
            nt.add(vlib.case_hash([c["fn"], c["ops"]]))
    ck.coverage.update({
        "evaluations": len(cases),
        "distinct_nontrivial": len(nt),
        "rule": "for each of the %d builtin aggregate configurations (function x argument types x DISTINCT / ORDER BY / IGNORE NULLS "
                "variants): scalar histories (0..70 rows, NULL rates 0/20/60/100%%, small / wide / extreme-i64 / half-integer "
                "value profiles, 1-4 batch splits, 1-4 partitions each split into 1-3 batches, random merge order, one merge_batch "
                "call or one per partition), sliding-window histories (monotone frames, update then retract as the window "
                "executor does), GroupsAccumulator histories (native or GroupsAccumulatorAdapter: 2-9 steps of update_batch with "
                "random group assignment (new groups contiguous and present in the batch), filter masks with true/false/NULL, "
                "batches of 64/70/130 rows for the chunked paths, evaluate / state with EmitTo::All or First(n>=1), merge_batch of "
                "previously emitted or converted state rows, convert_to_state with filters). non-trivial = scalar: >=2 partitions "
                "and a non-NULL value; retract: a frame whose start moved; groups: an update/merge followed by a non-empty emit"
                % len(fns),
        "function_configurations": len(fns),
        "configurations_without_accumulator": sorted(f["fn"] for f in fns if f.get("acc") is not True),
        "groups_native": sum(1 for f in fns if f.get("groups") == "native"),
        "groups_adapter": sum(1 for f in fns if f.get("groups") == "adapter"),
        "retractable": sum(1 for f in fns if f.get("retract") is True),
        "cases_by_kind": kinds,
        "float_results_within_tolerance_not_bit_identical": sum(1 for c in cases if c.get("approx")),
        "sketch_cases_reported_only": sum(1 for c in cases if c.get("sketch")),
        "sketch_cases_differing": sum(1 for c in cases if c.get("sketch") and c.get("why")),
        "traces_validated_against_impl": len(terms),
        "model_tied_by_instance": tied,
        "samples": [{k: v for k, v in c.items() if k != "ok"} for c in (src[:1] + [c for c in src if c["k"] == "groups"][:1])],
        "trusted_base": vlib.TRUSTED_COMMON + [
            "AVG / MEDIAN are modelled on integers: the harness feeds integer-valued doubles with sums below 2^53 (exact in f64); the "
            "model's exact rational is compared with the implementation's double up to one correct rounding (|obs-q| <= 2^-53 |q|, checked in Coq)",
            "functions without a model instance (strings, decimals, floats, variance family, array_agg, string_agg, nth_value, ORDER BY "
            "variants, approx_distinct, GroupsAccumulatorAdapter) are judged by the metamorphic oracle on the implementation only",
            "emitted state rows are judged by merging them into a fresh GroupsAccumulator of the same kind (partial -> final data flow)"],
    })
    ck.assumptions = [
        "GroupsAccumulator contract: group indices < total_num_groups, a new group index occurs in the batch that introduces it, at least one group is emitted",
        "counts and i64 sums of counts do not overflow (u64/i64 `+=` would panic in a debug build)",
        "floating point statistics (variance family) are compared within 1e-9; their retract-vs-recompute drift is reported, not judged",
        "t-digest sketches (approx_median, approx_percentile_cont*) are outside the property and only reported"]
    return ck.finish()
