"""C34 -- scalar values, arrays and casts are mutually consistent.  Tie: X."""
import vlib
from vlib import Check, zlit, coq_bool

STREAMS = ("rt", "iter", "cmp", "eqhash", "cast", "arith", "display", "search", "fixed")


def r_optz(v):
    return "None" if v is None else "(Some %s)" % zlit(v)


def r_bytes(s):
    return "[" + "; ".join(str(b) for b in s.encode("utf-8")) + "]"


def r_optbytes(s):
    return "None" if s is None else "(Some %s)" % r_bytes(s)


def r_sv(j):
    t = j["t"]
    if t == "null":
        return "SNull"
    if t == "bool":
        return "(SBool %s)" % ("None" if j["v"] is None else "(Some %s)" % coq_bool(j["v"]))
    if t == "int":
        return "(SInt %s %s)" % (j["w"], r_optz(j["v"]))
    if t == "str":
        return "(SStr %s %s)" % (j["k"], r_optbytes(j["v"]))
    if t == "ts":
        return "(STs %s %s %s)" % (j["u"], r_optz(j["v"]), r_optbytes(j["tz"]))
    if t == "dec":
        return "(SDec %s %s %s)" % (r_optz(j["v"]), zlit(j["p"]), zlit(j["s"]))
    raise ValueError("unrenderable scalar %r" % (j,))


def r_row(row):
    return "[" + "; ".join(r_sv(v) for v in row) + "]"


def r_sos(sos):
    return "[" + "; ".join("(%s, %s)" % (coq_bool(d), coq_bool(n)) for d, n in sos) + "]"


def r_res(o):
    """error -> None, {"v": x} -> Some (x)"""
    return "None" if o is None else "(Some %s)" % r_optz(o["v"])


def r_m(m):
    c = m["c"]
    if c == "cmp":
        return "C34Cmp %s %s %s" % (r_sv(m["a"]), r_sv(m["b"]), zlit(m["obs"]))
    if c == "eq":
        return "C34Eq %s %s %s %s" % (r_sv(m["a"]), r_sv(m["b"]), coq_bool(m["eq"]), coq_bool(m["heq"]))
    if c == "null":
        return "C34Null %s %s" % (r_sv(m["a"]), coq_bool(m["obs"]))
    if c == "cast":
        return "C34Cast %s %s %s %s" % (m["w"], r_optz(m["v"]), m["to"], r_res(m["obs"]))
    if c == "add":
        return "C34Add %s %s %s %s %s" % (m["w"], r_optz(m["a"]), r_optz(m["b"]), r_res(m["chk"]), r_optz(m["wrap"]))
    if c == "dist":
        return "C34Dist %s %s %s" % (r_optz(m["a"]), r_optz(m["b"]), r_optz(m["obs"]))
    if c == "rows":
        return "C34Rows %s %s %s %s" % (r_row(m["x"]), r_row(m["y"]), r_sos(m["sos"]), zlit(m["obs"]))
    if c == "search":
        return "C34Search %s %s %s %s" % ("[" + "; ".join(r_row(r) for r in m["rows"]) + "]", r_row(m["target"]), r_sos(m["sos"]),
                                          " ".join(zlit(x) for x in m["obs"]))
    raise ValueError("unknown model case " + c)


def classify(c):
    """stable key of a failing input: stream + type family + failure shape (no data values)"""
    why = c.get("why", "")
    if c.get("display_panic"):
        return "display:panic:%s" % c["display_panic"]
    fam = c.get("kind") or c.get("kinds") or (str(c.get("from", "")) + "->" + str(c.get("to", "")))
    if why.startswith("PANIC"):
        shape = "panic"
    else:
        shape = "".join(ch for ch in why.split(":")[0][:40] if ch.isalpha() or ch in " _").strip().replace(" ", "-")
    return "%s:%s:%s" % (c["k"], fam, shape)


def run(pid, tier, seed, replay):
    ck = Check(pid, tier, seed, level="proof")
    n = 1500 if tier == "quick" else 30000
    ck.proof_step(extra_targets=["Model/ScalarModel.vo"])
    ok, out, dt = vlib.cargo_build("h_expr", bin="c34")
    ck.log("cargo build: ok=%s (%.0fs)" % (ok, dt))
    if not ok:
        ck.problem("tie", "harness build failed:\n" + out[-3000:])
        return ck.finish()
    rc, so, se, dt = vlib.run_bin("c34", ["--seed", seed, "--n", n])
    cases = vlib.jsonl(so)
    if rc != 0:
        ck.problem("tie", "harness ended abnormally rc=%d: %s" % (rc, se[-1500:]))
    if not cases:
        ck.problem("tie", "harness produced no cases")
        return ck.finish()
    kinds = {}
    for c in cases:
        kinds[c["k"]] = kinds.get(c["k"], 0) + 1
        if not c["ok"]:
            small = {k: v for k, v in c.items() if k != "m"}
            ck.fail_input("ScalarValue consistency violated (%s): %s" % (c["k"], c.get("why", "")[:400]), small, key=classify(c))
    ck.log("harness: %s (%.1fs)" % (kinds, dt))
    # correspondence: the model's cmp / == / hash input / is_null / integer cast / add / distance / compare_rows /
    # bisect / linear_search predictions equal the implementation's answers on the modelled families
    corr, owner = [], []
    for c in cases:
        for m in c.get("m", []) or []:
            corr.append(m)
            owner.append(c)
    mk = {}
    for m in corr:
        mk[m["c"]] = mk.get(m["c"], 0) + 1
    pre = "From DF Require Import Base.Prelude Model.ScalarModel.\nOpen Scope Z_scope."
    bad, log, dt = vlib.coq_eval_cases(pre, "c34_case", "c34_check", [r_m(m) for m in corr], shard=400, tag="c34")
    ck.log("correspondence: %d model cases %s, %d disagreements (%.1fs)" % (len(corr), mk, len(bad), dt))
    if bad:
        first = bad[0]
        ck.problem("tie", "model and implementation disagree on %d cases; first: %s"
                   % (len(bad), str(corr[first] if isinstance(first, int) else log)[:1500]))
    families = sorted({c["kind"] for c in cases if isinstance(c.get("kind"), str)})
    nt = {vlib.case_hash(m) for m in corr if m["c"] in ("cmp", "search", "rows", "cast", "add")}
    cast_arrow_diff = sum(1 for c in cases if c["k"] == "cast" and c["ok"] and not c.get("arrow_same", True))
    ck.coverage.update({
        "evaluations": len(cases),
        "distinct_nontrivial": len(nt),
        "rule": "random scalars of 44 type kinds (all ints, f16/f32/f64 with NaN/-0.0/inf, Decimal32..256 at several precisions/scales, Utf8/LargeUtf8/Utf8View, "
                "binary kinds, dates, times, timestamps in 4 units x {no tz, UTC, +05:30}, intervals, durations, List/LargeList/FixedSizeList<Int32>, Struct, Dictionary), "
                "boundary-heavy integers; arrays of size 0,1,3,17; 24 cast targets; sorted tables of 0..40 rows x 1..3 columns under all four sort option "
                "combinations per column with 4 targets each; non-trivial = distinct model cases of kind cmp / search / rows / cast / add",
        "case_kinds": kinds,
        "model_case_kinds": mk,
        "type_kinds_seen": len(families),
        "scalar_cast_equals_engine_array_cast_but_differs_from_plain_arrow_cast": cast_arrow_diff,
        "traces_validated_against_impl": len(corr),
        "samples": [next(({k: v for k, v in c.items() if k != "m"} for c in cases if c["k"] == s), None) for s in ("search", "cast")],
        "trusted_base": vlib.TRUSTED_COMMON + [
            "std::hash (DefaultHasher) and the Hash impls of the payload types: the model states which bytes ScalarValue::hash feeds, the harness observes only hash equality",
            "arrow cast / sort / cmp / numeric kernels are the comparison partner for the unmodelled families (floats, decimals other than Decimal128, binary, temporal, nested, dictionary)",
        ],
    })
    ck.assumptions = ["model families: Null, Boolean, Int8..UInt64, Utf8/LargeUtf8/Utf8View, Timestamp(unit, tz), Decimal128(p, s); 'one type' = equal Arrow data type",
                      "bisect theorem: rows and target typed by one schema and sorted under compare_rows with the same sort options"]
    return ck.finish()
