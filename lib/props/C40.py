"""C40 -- file caches honour their validity rules and stay within budget.  Tie: X (correspondence).

proof     : coq/Props/C40.v over the Gallina model coq/Model/LruCache.v of DefaultCacheState + LruQueue
oracle    : harness/h_execution/src/bin/c40.rs drives the real DefaultCache (4 instantiations, three of
            them the real FileMetadataCache / FileStatisticsCache / ListFilesCache obtained through
            CacheManager) with random histories and evaluates the property predicates on what it observed
tie       : the model replays every history inside coqc and must reproduce every result and the
            observable state (memory_used, len, limit, list_entries incl. hits and expiry) after every op
"""
import json
import re
import vlib
from vlib import Check, zlit, coq_bool, optz


def k_term(keys, i):
    return "k%d" % keys[i]["id"]      # let-bound at the head of the case term


def k_defs(keys):
    return "".join("let k%d := mkKey %d %d %s in " % (k["id"], k["id"], k["size"], optz(k["tab"])) for k in keys)


def v_term(v):
    if v is None:
        return "None"
    m = v["m"]
    return "(mkVal %d %d (mkMeta %s %s %s))" % (v["id"], v["size"], zlit(m[0]), zlit(m[1]), zlit(m[2]))


def optv(v):
    return "None" if v is None else "(Some %s)" % v_term(v)


def render_op(keys, o):
    """-> (cop term, cout term)"""
    t = o["op"]
    if t == "put":
        return "Prim (OPut %s %s)" % (k_term(keys, o["key"]), v_term(o["v"])), "CPrim (RVal %s)" % optv(o["out"])
    if t == "get":
        return "Prim (OGet %s)" % k_term(keys, o["key"]), "CPrim (RVal %s)" % optv(o["out"])
    if t == "remove":
        return "Prim (ORemove %s)" % k_term(keys, o["key"]), "CPrim (RVal %s)" % optv(o["out"])
    if t == "contains":
        return "Prim (OContains %s)" % k_term(keys, o["key"]), "CPrim (RBool %s)" % coq_bool(o["out"])
    if t == "clear":
        return "Prim OClear", "CPrim RUnit"
    if t == "set_limit":
        return "Prim (OSetLimit %d)" % o["limit"], "CPrim RUnit"
    if t == "set_ttl":
        return "Prim (OSetTtl %s)" % optz(o["ttl"]), "CPrim RUnit"
    if t == "advance":
        return "Prim (OAdvance %d)" % o["dt"], "CPrim RUnit"
    if t == "drop_table":
        return "Prim (ODropTable %d)" % o["table"], "CPrim RUnit"
    if t == "lookup":
        c = o["cur"]
        return ("Lookup %s (mkMeta %s %s %s) %s" % (k_term(keys, o["key"]), zlit(c[0]), zlit(c[1]), zlit(c[2]), v_term(o["fresh"])),
                "CLookup %s %s" % (coq_bool(o["hit"]), v_term(o["res"])))
    raise ValueError(o)


def render_case(h):
    keys = h["keys"]
    ops, obs = [], []
    for o in h["ops"]:
        if o["op"] == "panic":
            break
        a, b = render_op(keys, o)
        ops.append(a)
        ents = "; ".join("EO %d %d %d %d %s" % (e[0], e[1], e[2], e[3], optz(e[4])) for e in o["ents"])
        obs.append("(%s, (%d, %d, %d, [%s]))" % (b, o["used"], o["len"], o["lim"], ents))
    return "(%sC40 %d %s\n [%s]\n [%s])" % (k_defs(keys), h["limit"], optz(h["ttl"]), ";\n  ".join(ops), ";\n  ".join(obs))


def slim(h, upto=None):
    """a history as a replayable input: kind, limit, ttl, keys and the operations with their results"""
    ops = []
    for i, o in enumerate(h["ops"]):
        if upto is not None and i > upto:
            break
        ops.append({k: v for k, v in o.items() if k != "ents"} | {"live": [e[0] for e in o.get("ents", [])]})
    return {"kind": h["kind"], "limit": h["limit"], "ttl": h["ttl"], "keys": h["keys"], "ops": ops}


def first_divergence(h):
    """index of the first op where model and implementation differ (binary search over prefixes is
    unnecessary: evaluate one-op-longer prefixes until the check fails)"""
    pre = "From DF Require Import Base.Prelude Model.LruCache.\nOpen Scope Z_scope."
    terms = []
    n = len([o for o in h["ops"] if o["op"] != "panic"])
    for i in range(1, n + 1):
        hh = dict(h)
        hh["ops"] = h["ops"][:i]
        terms.append(render_case(hh))
    bad, _, _ = vlib.coq_eval_cases(pre, "c40_case", "c40_check", terms, shard=max(1, len(terms)), tag="c40_div")
    bad = [b for b in bad if isinstance(b, int)]
    return min(bad) if bad else None


def run(pid, tier, seed, replay):
    ck = Check(pid, tier, seed, level="proof")
    if replay:
        try:
            r = json.load(open(replay))
            seed = int(r.get("seed", seed))
            tier = r.get("tier", tier)
            ck.seed, ck.tier = seed, tier
            ck.log("replaying seed=%d tier=%s from %s" % (seed, tier, replay))
        except Exception as e:  # the generator is deterministic in (seed, tier)
            ck.log("could not read replay file (%s); running seed=%d" % (e, seed))
    n = 300 if tier == "quick" else 6000
    # ---- proofs
    ck.proof_step(extra_targets=["Model/LruCache.vo"])
    # ---- build + run the implementation
    ok, out, dt = vlib.cargo_build("h_execution", bin="c40")
    ck.log("cargo build h_execution: ok=%s (%.0fs)" % (ok, dt))
    if not ok:
        if "TIMEOUT" in out and "error" not in out:
            # cargo never got the shared target-dir lock (other checks building): machinery, not a verdict
            raise RuntimeError("cargo build timed out waiting for the target directory lock:\n" + out[-500:])
        ck.problem("tie", "harness build failed:\n" + out[-3000:])
        return ck.finish()
    rc, so, se, dt = vlib.run_bin("c40", ["--seed", seed, "--n", n])
    hists = vlib.jsonl(so)
    if rc != 0:
        ck.problem("tie", "harness run ended abnormally rc=%d: %s" % (rc, se[-1500:]))
    if not hists:
        ck.problem("tie", "harness produced no histories")
        return ck.finish()
    nops = sum(len(h["ops"]) for h in hists)
    ck.log("harness: %d histories, %d operations (%.1fs)" % (len(hists), nops, dt))
    # ---- direct property oracle (evaluated by the harness on the implementation's own outputs)
    for h in hists:
        if not h["ok"]:
            m = re.match(r"op#(\d+): (.*)", h["why"][0]) if h["why"] else None
            upto = int(m.group(1)) if m else None
            what = "%s cache (limit %d, ttl %s): %s" % (h["kind"], h["limit"], h["ttl"], "; ".join(h["why"][:3]))
            ck.fail_input(what, slim(h, upto))
    # ---- correspondence: the model replays every history
    pre = "From DF Require Import Base.Prelude Model.LruCache.\nOpen Scope Z_scope."
    terms = [render_case(h) for h in hists]
    shard = max(5, (len(terms) + 31) // 32)
    bad, log, dt = vlib.coq_eval_cases(pre, "c40_case", "c40_check", terms, shard=shard, tag="c40")
    ck.log("correspondence: %d histories replayed by the model, %d disagreements (%.1fs)" % (len(terms), len(bad), dt))
    if bad:
        ints = [b for b in bad if isinstance(b, int)]
        if ints:
            h = hists[ints[0]]
            at = first_divergence(h)
            detail = slim(h, at)
            ck.problem("tie", "model and implementation disagree on %d histor%s; first: history #%d (%s) diverges at op #%s: %s"
                       % (len(bad), "y" if len(bad) == 1 else "ies", ints[0], h["kind"], at, json.dumps(detail)[-1500:]))
        else:
            ck.problem("tie", "model evaluation failed: " + log[-1500:])
    # ---- coverage
    stat = {}
    kinds = {}
    opk = {}
    for h in hists:
        kinds[h["kind"]] = kinds.get(h["kind"], 0) + 1
        for k, v in h["stat"].items():
            stat[k] = stat.get(k, 0) + v
        for o in h["ops"]:
            opk[o["op"]] = opk.get(o["op"], 0) + 1
    nontrivial = {vlib.case_hash(slim(h)) for h in hists
                  if h["stat"]["evictions"] > 0 and h["stat"]["hits"] > 0
                  and (h["stat"]["replacements"] + h["stat"]["expirations"] + h["stat"]["stale"]) > 0}
    ck.coverage.update({
        "evaluations": nops,
        "histories": len(hists),
        "distinct_nontrivial": len(nontrivial),
        "rule": "random histories (15-75 ops + a drain phase that lowers the limit one entry at a time, exposing the LRU order) "
                "over 3-6 keys with limits of about 1.5-4.5 typical entries, zero-sized / oversized values, limit 0/1, "
                "ttl in {none,0,5,10,20}ms with a manual clock stepping onto and past the expiry instants, file rewrites before "
                "put/lookup, drop_table, clear; 4 instantiations of the real DefaultCache: harness key/value types, "
                "FileMetadataCache, FileStatisticsCache, ListFilesCache (the last three obtained through CacheManager::try_new). "
                "distinct_nontrivial counts distinct HISTORIES with >=1 eviction, >=1 cache hit and >=1 of "
                "{replacement of a live key, ttl expiry observed, stale entry rejected by is_valid_for}",
        "case_kinds": kinds,
        "op_kinds": opk,
        "events": stat,
        "traces_validated_against_impl": len(hists) - len([b for b in bad if isinstance(b, int)]),
        "samples": [slim(hists[0], 12), slim(next((h for h in hists if h["kind"] == "list" and h["stat"]["expirations"] > 0), hists[-1]), 12)],
        "trusted_base": vlib.TRUSTED_COMMON + [
            "coq/Model/LruCache.v is a hand-written model of lru_queue.rs/default_cache.rs (recency list as a Coq list, HashMaps as association lists, usize/Instant as Z); "
            "its agreement with the Rust is established by replaying every generated history (results + memory_used/len/limit/list_entries after every operation), not by translation",
            "CacheKey::size / CacheValue::size of the real key/value types are taken as inputs (the harness reports the sizes the real code computed); they must be stable between put and remove",
            "single-threaded use (the Rust serialises all operations with one Mutex)"],
    })
    ck.assumptions = ["usize arithmetic does not wrap (limits and sizes far below 2^63)",
                      "key.size() and value.size() are pure functions of the key / value"]
    return ck.finish()
